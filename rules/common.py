"""Helpers shared by several property modules."""

from __future__ import annotations

import ast

from sa.cfg import CFG, N, all_paths_pass, dominators, find_path, fmt_path, reachable
from sa.db import FuncInfo, ProgramDB, ancestors, dotted, src, walk_local
from sa.model import contains, template_classes

EVENT_BUILDERS = {
    "build_node_start_event",
    "build_node_end_event",
    "build_node_error_event",
    "build_cache_hit_event",
    "build_route_decision_event",
    "build_run_start_event",
    "build_run_end_event",
}


def runner_no_raise(db: ProgramDB):
    """No-raise predicate for the runner code: dispatcher emission (justified by C13.R1,
    which is checked on every run) and the event constructors."""
    disp = db.cls("events.dispatcher.EventDispatcher")

    def pred(call: ast.Call, f: FuncInfo) -> bool:
        for c in db.resolve_call(call, f):
            if c.func is not None and c.func.cls == disp and c.func.name in ("emit", "emit_async", "shutdown", "shutdown_async"):
                return True
            if c.func is not None and c.func.name in EVENT_BUILDERS and c.func.module.name.endswith("event_helpers"):
                return True
            if c.func is not None and c.func.name in ("_shutdown_dispatcher_sync", "_shutdown_dispatcher_async", "_emit_run_end_sync", "_emit_run_end_async", "_emit_run_end"):
                return True
        d = dotted(call.func) or ""
        if d.startswith("logger.") or d == "warnings.warn":
            return True
        return False

    return pred


RUNNER_NO_RAISE_TEXT = (
    "EventDispatcher.emit/emit_async/shutdown*, the run-end emission helpers and the build_*_event constructors do not raise "
    "(C13.R1 decides the dispatcher part on the same tree; the constructors only read attributes and build dataclasses)"
)


def call_names(db: ProgramDB, call: ast.Call, f: FuncInfo) -> set[str]:
    out = set()
    for c in db.resolve_call(call, f):
        out.add(c.short)
    if not out:
        if isinstance(call.func, ast.Attribute):
            out.add(call.func.attr)
        elif isinstance(call.func, ast.Name):
            out.add(call.func.id)
    return out


def nodes_calling(db: ProgramDB, cfg: CFG, names: set[str]) -> list[N]:
    out = []
    for n in cfg.nodes:
        for c in cfg.calls_at(n):
            if call_names(db, c, cfg.func) & names:
                out.append(n)
                break
    return out


def template_methods(db: ProgramDB, name: str) -> list[FuncInfo]:
    return [c.methods[name] for c in template_classes(db) if name in c.methods]


# ---------------------------------------------------------------------------
# E7 ordering evaluator: truth table of a comparison over two symbolic integers
# ---------------------------------------------------------------------------


class NotComparable(Exception):
    pass


def _ev(e: ast.AST, env: dict[str, int]):
    if not isinstance(e, (ast.Constant, ast.Name)) and src(e) in env:
        return env[src(e)]  # a symbolic operand given by its source text
    if isinstance(e, ast.Constant) and isinstance(e.value, (int, bool)):
        return e.value
    if isinstance(e, ast.Name):
        if e.id in env:
            return env[e.id]
        raise NotComparable(e.id)
    if isinstance(e, ast.UnaryOp) and isinstance(e.op, ast.Not):
        return not _ev(e.operand, env)
    if isinstance(e, ast.BoolOp):
        vals = [_ev(v, env) for v in e.values]
        return all(vals) if isinstance(e.op, ast.And) else any(vals)
    if isinstance(e, ast.Compare):
        left = _ev(e.left, env)
        for op, c in zip(e.ops, e.comparators):
            right = _ev(c, env)
            if isinstance(op, ast.Lt):
                r = left < right
            elif isinstance(op, ast.LtE):
                r = left <= right
            elif isinstance(op, ast.Gt):
                r = left > right
            elif isinstance(op, ast.GtE):
                r = left >= right
            elif isinstance(op, ast.Eq):
                r = left == right
            elif isinstance(op, ast.NotEq):
                r = left != right
            else:
                raise NotComparable(type(op).__name__)
            if not r:
                return False
            left = right
        return True
    if isinstance(e, ast.BinOp) and isinstance(e.op, (ast.Add, ast.Sub)):
        a, b = _ev(e.left, env), _ev(e.right, env)
        return a + b if isinstance(e.op, ast.Add) else a - b
    raise NotComparable(type(e).__name__)


def ordering_table(test: ast.AST, a: str, b: str) -> dict[str, bool]:
    """Truth of ``test`` under a<b, a==b, a>b (a, b symbolic integers)."""
    return {
        "lt": bool(_ev(test, {a: 1, b: 2})),
        "eq": bool(_ev(test, {a: 2, b: 2})),
        "gt": bool(_ev(test, {a: 3, b: 2})),
    }


def must_reach_in_iteration(cfg: CFG, loop: N, targets: list[N], valuation: dict[str, bool]) -> bool:
    """Under ``valuation`` every path through one iteration of ``loop`` (from the first body
    node back to the loop header, normal edges only) passes one of ``targets``."""
    from sa.cfg import specialize, both

    starts = [t for t, l, _ in loop.succ if l == "T"]
    if not starts or not targets:
        return False

    def no_exc(a, b, l, i):
        return l != "exc"

    ef = both(no_exc, specialize(valuation, cfg))
    return all_paths_pass(starts[0], loop, targets, ef) and all(all_paths_pass(starts[0], ex, targets, ef) for ex in (cfg.exit_return,))


def vars_from_call(db: ProgramDB, f: FuncInfo, callee_names: set[str], index: int | None = None, include_nested: bool = False) -> list[str]:
    """Local names bound from a call of one of ``callee_names`` (``x = f(...)``, ``x = await f(...)``,
    ``a, b = f(...)`` with ``index`` selecting the tuple position)."""
    out: list[str] = []
    it = ast.walk(f.node) if include_nested else walk_local(f.node)
    for n in it:
        if not isinstance(n, (ast.Assign, ast.AnnAssign)) or getattr(n, "value", None) is None:
            continue
        v = n.value.value if isinstance(n.value, ast.Await) else n.value
        if not (isinstance(v, ast.Call) and (call_names(db, v, f) & callee_names or (dotted(v.func) or "") in callee_names)):
            continue
        tgts = n.targets if isinstance(n, ast.Assign) else [n.target]
        for t in tgts:
            if isinstance(t, ast.Name) and index is None:
                out.append(t.id)
            elif isinstance(t, (ast.Tuple, ast.List)) and index is not None and index < len(t.elts) and isinstance(t.elts[index], ast.Name):
                out.append(t.elts[index].id)
    return out


def flag_locals(f: FuncInfo, attr: str = "active") -> set[str]:
    """Locals assigned from an expression that reads ``.<attr>`` (e.g. ``active = dispatcher is not None and dispatcher.active``)."""
    out = set()
    g: FuncInfo | None = f
    while g is not None:
        for n in walk_local(g.node):
            if isinstance(n, ast.Assign) and len(n.targets) == 1 and isinstance(n.targets[0], ast.Name) and any(isinstance(x, ast.Attribute) and x.attr == attr for x in ast.walk(n.value)):
                out.add(n.targets[0].id)
        g = g.parent
    return out


def branch_facts(test: ast.AST, polarity: bool) -> list[tuple[ast.AST, bool]]:
    """Atoms known to hold (``(expr, True)``) or not to hold (``(expr, False)``) in the branch of
    ``test`` taken when it evaluates to ``polarity`` — looks through ``and``/``or``/``not``."""
    if isinstance(test, ast.UnaryOp) and isinstance(test.op, ast.Not):
        return branch_facts(test.operand, not polarity)
    if isinstance(test, ast.BoolOp):
        if isinstance(test.op, ast.And) and polarity or isinstance(test.op, ast.Or) and not polarity:
            return [a for v in test.values for a in branch_facts(v, polarity)]
        return []
    return [(test, polarity)]


def enclosing_facts(node: ast.AST) -> list[tuple[ast.AST, bool]]:
    """Facts established by the enclosing ``if`` / conditional-expression branches of ``node``
    (within its function)."""
    from sa.db import ancestors

    out: list[tuple[ast.AST, bool]] = []
    prev = node
    for a in ancestors(node):
        if isinstance(a, ast.IfExp):
            if contains(a.body, prev):
                out += branch_facts(a.test, True)
            elif contains(a.orelse, prev):
                out += branch_facts(a.test, False)
        elif isinstance(a, ast.If):
            if any(contains(s, prev) for s in a.body):
                out += branch_facts(a.test, True)
            elif any(contains(s, prev) for s in a.orelse):
                out += branch_facts(a.test, False)
        elif isinstance(a, ast.While):
            if any(contains(s, prev) for s in a.body):
                out += branch_facts(a.test, True)
        if isinstance(a, (ast.FunctionDef, ast.AsyncFunctionDef, ast.Lambda)):
            break
        prev = a
    return out


def is_none_fact(atom: ast.AST, pol: bool) -> ast.AST | None:
    """The expression known to be None under the fact, if the fact is of that form."""
    if isinstance(atom, ast.Compare) and len(atom.ops) == 1 and isinstance(atom.comparators[0], ast.Constant) and atom.comparators[0].value is None:
        if isinstance(atom.ops[0], ast.Is) and pol or isinstance(atom.ops[0], ast.IsNot) and not pol:
            return atom.left
    return None


def norm_atom(a: ast.AST) -> tuple[str, bool]:
    """(key, positive): ``x not in y`` -> ("x in y", False); ``x is not y`` -> ("x is y", False)."""
    if isinstance(a, ast.Compare) and len(a.ops) == 1:
        if isinstance(a.ops[0], ast.NotIn):
            return src(ast.Compare(a.left, [ast.In()], a.comparators)), False
        if isinstance(a.ops[0], ast.IsNot):
            return src(ast.Compare(a.left, [ast.Is()], a.comparators)), False
        if isinstance(a.ops[0], ast.NotEq):
            return src(ast.Compare(a.left, [ast.Eq()], a.comparators)), False
    return src(a), True


def eval_bool(e: ast.AST, val: dict[str, bool]) -> bool | None:
    """Evaluate a boolean expression under a valuation of normalised atoms (None: unknown atom)."""
    if isinstance(e, ast.UnaryOp) and isinstance(e.op, ast.Not):
        r = eval_bool(e.operand, val)
        return None if r is None else not r
    if isinstance(e, ast.BoolOp):
        rs = [eval_bool(v, val) for v in e.values]
        if isinstance(e.op, ast.And):
            if any(r is False for r in rs):
                return False
            return True if all(r is True for r in rs) else None
        if any(r is True for r in rs):
            return True
        return False if all(r is False for r in rs) else None
    k, pos = norm_atom(e)
    if k not in val:
        return None
    return val[k] if pos else not val[k]


def returns_under(cfg: CFG, valuation: dict[str, bool]) -> list[ast.AST]:
    """The expressions a function can return under ``valuation`` (CFG tests and conditional
    expressions in the returned value are both decided by it; undecided ones keep both sides)."""
    from sa.cfg import eval_test, reachable, single_defs, specialize

    defs = single_defs(cfg)

    def pick(e: ast.AST) -> list[ast.AST]:
        if isinstance(e, ast.IfExp):
            t = eval_test(e.test, valuation, defs)
            if t is True:
                return pick(e.body)
            if t is False:
                return pick(e.orelse)
            return pick(e.body) + pick(e.orelse)
        return [e]

    out: list[ast.AST] = []
    for n in reachable(cfg.entry, specialize(valuation, cfg)):
        if n.kind == "stmt" and isinstance(n.ast, ast.Return) and n.ast.value is not None:
            out += pick(n.ast.value)
    return out


def policy_valuation(f: FuncInfo, vals: list, chosen, valid_const: str = "_VALID_ON_MISSING") -> dict[str, bool]:
    """Valuation of the tests of ``f`` on a policy variable (whatever its name): every name compared with one
    of the declared values ``vals`` or tested for membership in ``valid_const`` is taken to hold ``chosen``
    (``None``: a value outside the declared ones)."""
    names: set[str] = set()
    for n in walk_local(f.node):
        if isinstance(n, ast.Compare) and len(n.ops) == 1 and isinstance(n.left, ast.Name):
            c = n.comparators[0]
            if isinstance(c, ast.Constant) and c.value in vals or isinstance(c, ast.Name) and c.id == valid_const:
                names.add(n.left.id)
    val: dict[str, bool] = {}
    for x in names:
        for v in vals:
            val[f"{x} == {v!r}"] = v == chosen
            val[f"{x} != {v!r}"] = v != chosen
        val[f"{x} not in {valid_const}"] = chosen is None
        val[f"{x} in {valid_const}"] = chosen is not None
    return val


def param_bound_to(db: ProgramDB, caller: FuncInfo, callee: FuncInfo, arg_name: str, default: str | None = None) -> str | None:
    """The parameter of ``callee`` that receives the caller's variable ``arg_name`` at a call in ``caller``
    (private helpers' parameter names are not API: rules take them from the binding at the call site)."""
    from sa.db import bind_args

    for c in db.calls_in(caller, include_nested=True):
        if any(cal.func is callee for cal in db.resolve_call(c, caller)):
            for pn, a in (bind_args(c, callee) or {}).items():
                if isinstance(a, ast.Name) and a.id == arg_name:
                    return pn
    return default


CANON_BY_ANNOTATION = (("GraphState", "state"), ("Graph", "graph"), ("GraphNode", "node"), ("HyperNode", "node"), ("InterruptNode", "node"), ("RouteNode", "node"), ("IfElseNode", "node"), ("GateNode", "node"), ("FunctionNode", "node"))


def canon_src(f: FuncInfo) -> str:
    """Source of ``f`` with its parameters renamed to the canonical role name of their annotated type
    (``GraphState`` -> state, ``Graph`` -> graph, node classes -> node): text-level facts about a private
    helper then do not depend on what it calls its parameters."""
    import copy as _copy

    ren: dict[str, str] = {}
    a = f.node.args
    for arg in a.posonlyargs + a.args + a.kwonlyargs:
        if arg.annotation is None:
            continue
        t = src(arg.annotation).split("|")[0].strip().split(".")[-1]
        for cls_, canon in CANON_BY_ANNOTATION:
            if t == cls_ and arg.arg != canon and canon not in ren.values():
                ren[arg.arg] = canon
                break
    if not ren:
        return src(f.node)
    tree = _copy.deepcopy(f.node)
    for x in ast.walk(tree):
        if isinstance(x, ast.Name) and x.id in ren:
            x.id = ren[x.id]
        elif isinstance(x, ast.arg) and x.arg in ren:
            x.arg = ren[x.arg]
    return src(tree)


def wrapper_param(f: FuncInfo, default: str = "node") -> str:
    """The parameter through which a function receives the node it works for: the one annotated with a node
    class, else ``default`` (a private helper may call it anything)."""
    if default in f.param_names:
        return default
    a = f.node.args
    for arg in a.posonlyargs + a.args + a.kwonlyargs:
        if arg.annotation is not None and src(arg.annotation).split("|")[0].strip().split(".")[-1].endswith("Node"):
            return arg.arg
    return default


def exposes_selection_else_all(db: ProgramDB, f: FuncInfo, value: ast.AST) -> bool:
    """``value`` (what a wrapper stores as its outputs) is 'the wrapped graph's selection if set, else all its outputs' —
    directly, through a single-assignment local, and possibly filtered by a comprehension over that expression."""
    defs = {nm: ds[0].value for nm, ds in db.local_defs(f).items() if len(ds) == 1 and getattr(ds[0], "value", None) is not None}

    def base(e: ast.AST, depth: int = 0) -> ast.AST:
        if isinstance(e, ast.Name) and e.id in defs and depth < 3:
            return base(defs[e.id], depth + 1)
        if isinstance(e, ast.Call) and dotted(e.func) in ("tuple", "list") and len(e.args) == 1:
            return base(e.args[0], depth + 1)
        if isinstance(e, (ast.GeneratorExp, ast.ListComp)) and len(e.generators) == 1 and isinstance(e.elt, ast.Name) and src(e.elt) == src(e.generators[0].target):
            return base(e.generators[0].iter, depth + 1)  # a filter of the exposed names
        return e

    b = base(value)
    if isinstance(value, ast.Constant) and isinstance(value.value, str):
        # internal: base of one branch only (statement form below)
        return False
    return isinstance(b, ast.IfExp) and src(b.test) == "graph.selected is not None" and src(b.body) == "graph.selected" and src(b.orelse) == "graph.outputs"


def wrapper_outputs_expose_selection(db: ProgramDB, f: FuncInfo, outs: list[ast.Assign]) -> bool:
    """The assignment(s) of a wrapper's outputs amount to 'selection if set, else all outputs' — as one conditional
    expression, or as the two branches of ``if graph.selected is not None: ... else: ...``."""
    if len(outs) == 1:
        return exposes_selection_else_all(db, f, outs[0].value)
    if len(outs) != 2:
        return False
    defs = {nm: ds[0].value for nm, ds in db.local_defs(f).items() if len(ds) == 1 and getattr(ds[0], "value", None) is not None}

    def base(e: ast.AST, depth: int = 0) -> ast.AST:
        if isinstance(e, ast.Name) and e.id in defs and depth < 3:
            return base(defs[e.id], depth + 1)
        if isinstance(e, ast.Call) and dotted(e.func) in ("tuple", "list") and len(e.args) == 1:
            return base(e.args[0], depth + 1)
        if isinstance(e, (ast.GeneratorExp, ast.ListComp)) and len(e.generators) == 1 and isinstance(e.elt, ast.Name) and src(e.elt) == src(e.generators[0].target):
            return base(e.generators[0].iter, depth + 1)
        return e

    for a in ancestors(outs[0]):
        if isinstance(a, ast.If) and len(a.orelse) >= 1:
            t = src(a.test)
            in_body = [o for o in outs if any(o is x or contains(x, o) for x in a.body)]
            in_else = [o for o in outs if any(o is x or contains(x, o) for x in a.orelse)]
            if len(in_body) == 1 and len(in_else) == 1:
                if t == "graph.selected is not None":
                    return src(base(in_body[0].value)) == "graph.selected" and src(base(in_else[0].value)) == "graph.outputs"
                if t == "graph.selected is None":
                    return src(base(in_else[0].value)) == "graph.selected" and src(base(in_body[0].value)) == "graph.outputs"
    return False


def state_update_sites(ctx, uv: FuncInfo):
    """CFG nodes of ``GraphState.update_value`` that (a) advance a version, (b) store the value — directly, or through a
    method of the same class all of whose paths do it (a wrapper: 'records a value under its next version')."""
    db = ctx.db
    ucfg = ctx.cfg(uv)

    def is_inc(a: ast.AST) -> bool:
        return isinstance(a, (ast.Assign, ast.AugAssign)) and "versions" in src(a.targets[0] if isinstance(a, ast.Assign) else a.target)

    def is_store(a: ast.AST) -> bool:
        return isinstance(a, ast.Assign) and any(isinstance(t_, ast.Subscript) and src(t_.value).endswith(".values") for t_ in a.targets)

    incs = [n for n in ucfg.nodes if n.kind == "stmt" and is_inc(n.ast)]
    stores = [n for n in ucfg.nodes if n.kind == "stmt" and is_store(n.ast)]
    for n in ucfg.nodes:
        for c in ucfg.calls_at(n):
            if not (isinstance(c.func, ast.Attribute) and isinstance(c.func.value, ast.Name) and c.func.value.id == "self" and uv.cls is not None):
                continue
            m = uv.cls.find_method(c.func.attr)
            if m is None or m is uv:
                continue
            from sa.cfg import all_paths_pass

            mcfg = ctx.cfg(m)
            mi = [x for x in mcfg.nodes if x.kind == "stmt" and is_inc(x.ast)]
            ms = [x for x in mcfg.nodes if x.kind == "stmt" and is_store(x.ast)]
            if mi and all_paths_pass(mcfg.entry, mcfg.exit_return, mi):
                incs.append(n)
            if ms and all_paths_pass(mcfg.entry, mcfg.exit_return, ms):
                stores.append(n)
    return ucfg, incs, stores

"""Helpers shared by several property modules."""

from __future__ import annotations

import ast

from sa.cfg import CFG, N, all_paths_pass, dominators, find_path, fmt_path, reachable
from sa.db import FuncInfo, ProgramDB, dotted, src, walk_local
from sa.model import template_classes

EVENT_BUILDERS = {
    "build_node_start_event",
    "build_node_end_event",
    "build_node_error_event",
    "build_cache_hit_event",
    "build_route_decision_event",
    "build_run_start_event",
    "build_run_end_event",
}


def runner_no_raise(db: ProgramDB):
    """No-raise predicate for the runner code: dispatcher emission (justified by C13.R1,
    which is checked on every run) and the event constructors."""
    disp = db.cls("events.dispatcher.EventDispatcher")

    def pred(call: ast.Call, f: FuncInfo) -> bool:
        for c in db.resolve_call(call, f):
            if c.func is not None and c.func.cls == disp and c.func.name in ("emit", "emit_async", "shutdown", "shutdown_async"):
                return True
            if c.func is not None and c.func.name in EVENT_BUILDERS and c.func.module.name.endswith("event_helpers"):
                return True
            if c.func is not None and c.func.name in ("_shutdown_dispatcher_sync", "_shutdown_dispatcher_async", "_emit_run_end_sync", "_emit_run_end_async", "_emit_run_end"):
                return True
        d = dotted(call.func) or ""
        if d.startswith("logger.") or d == "warnings.warn":
            return True
        return False

    return pred


RUNNER_NO_RAISE_TEXT = (
    "EventDispatcher.emit/emit_async/shutdown*, the run-end emission helpers and the build_*_event constructors do not raise "
    "(C13.R1 decides the dispatcher part on the same tree; the constructors only read attributes and build dataclasses)"
)


def call_names(db: ProgramDB, call: ast.Call, f: FuncInfo) -> set[str]:
    out = set()
    for c in db.resolve_call(call, f):
        out.add(c.short)
    if not out:
        if isinstance(call.func, ast.Attribute):
            out.add(call.func.attr)
        elif isinstance(call.func, ast.Name):
            out.add(call.func.id)
    return out


def nodes_calling(db: ProgramDB, cfg: CFG, names: set[str]) -> list[N]:
    out = []
    for n in cfg.nodes:
        for c in cfg.calls_at(n):
            if call_names(db, c, cfg.func) & names:
                out.append(n)
                break
    return out


def template_methods(db: ProgramDB, name: str) -> list[FuncInfo]:
    return [c.methods[name] for c in template_classes(db) if name in c.methods]

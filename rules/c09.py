"""C09 Caching is transparent, even with eviction, corruption or a torn write."""

from __future__ import annotations

import ast

from sa.cfg import all_paths_pass, dominators, reachable, reaches, specialize
from sa.db import AnalysisError, ClassInfo, FuncInfo, ancestors, bind_args, dotted, src, walk_local
from sa.flow import defs_reaching, reaching_defs
from sa.model import contains, enclosing, is_user_func_call, node_classes, superstep_funcs
from sa.variants import Variant, chain, replace_once, sub_first, sub_once

from .common import call_names, runner_no_raise, vars_from_call

ID = "C09"
EXPLANATION = (
    "Decides key completeness and the disk-cache read protocol: (R1) for every cacheable node class (derived: 'cache' property is not the "
    "constant-False default) the attributes of the node that its executor consults to produce outputs/decisions are all represented in the key "
    "material read by check_cache (attributes derived from the function are covered by the definition hash; one-line reasons for each exemption); "
    "(R2) in DiskCache.get every path to pickle.loads passes the true branch of hmac.compare_digest(stored, expected) where expected is computed "
    "from the same bytes and key read in this call, and (R5) no other pickle.load(s) exists in the package; (R3) every other exit of get returns "
    "the miss tuple, loads sits in a handler that returns miss, and every call consuming stored (untrusted) data is total under the dominating "
    "type guards or guarded by such a handler — no exception can leave get because of an altered, truncated or half-written entry; (R4) a hit "
    "hands out a fresh dict and the stored dict is a fresh copy that alone receives the internal routing key; (R6) nodes that did not opt in never "
    "reach the backend, a hit never reaches the executor and a store happens only after the executor returned; (R7) on a hit the routing decision "
    "is restored (and its internal key removed) before the state is written; (R8) the in-memory LRU only ever removes entries; (R9) emit "
    "outputs — compared by identity against one module constant — are re-bound to that constant when an entry is served, because a "
    "serialising backend returns a copy. R7 also requires that the routing decision is stored as the gate recorded it and restored as it was stored (readers dispatch on its type)."
    " R6 also requires that a result is stored under the key the look-up computed before execution (never a key rebuilt afterwards from arguments the node may have changed); the key computation is followed into a helper of the same module."
    " R2 also requires that every reaching definition of the two compared digests is of the right kind (recomputed / stored); R3 that any failure of pickle.dumps is a miss; R4 that a backend isolates entries from served values (open finding F39); R6 that the resume bypass of C14.R10 guards look-up and store."
)
NOT_DECIDED = "Equality of cached and uncached runs as such; behaviour of the third-party diskcache store (assumed: stored bytes come back as bytes or as a non-bytes object; its own calls do not raise); that definition_hash distinguishes any two different functions."

# attributes the executors read that are covered by another key component, with the reason
COVERED = {
    "func": "covered by definition_hash (_definition_hash = hash_definition(func) in __init__)",
    "is_generator": "derived from func at construction; covered by definition_hash",
    "is_async": "derived from func at construction; covered by definition_hash",
    "name": "used for error messages and as the key under which the decision is recorded in *this* run's state; not part of the cached payload",
    "inputs": "the input values are keyed through map_inputs_to_params(inputs)",
    "cache": "opt-in flag, checked before the key is built",
    "_rename_history": "input renames enter the key through map_inputs_to_params(inputs); output renames are positional (original output i is current output i), so the current outputs tuple in the key determines the original->current map the executor derives from the history",
    "is_interrupt": "scheduling only",
    "wait_for": "scheduling only",
}


def cacheable_classes(db) -> list[ClassInfo]:
    out = []
    for ci in node_classes(db):
        if ci.node.name in ("HyperNode",):
            continue
        m = ci.find_method("cache")
        if m is None:
            continue
        rets = [n for n in walk_local(m.node) if isinstance(n, ast.Return)]
        const_false = all(isinstance(r.value, ast.Constant) and r.value.value is False for r in rets)
        if not const_false:
            out.append(ci)
    return out


def _node_attr_names(db, f: FuncInfo, param: str, seen=None, depth=0) -> set[str]:
    """Names accessed on ``param`` (attributes and methods) in ``f`` and, through calls that pass it on, in callees."""
    seen = seen if seen is not None else set()
    if (f.qname, param) in seen or depth > 5:
        return set()
    seen.add((f.qname, param))
    out = set()
    for n in walk_local(f.node):
        if isinstance(n, ast.Attribute) and isinstance(n.value, ast.Name) and n.value.id == param:
            out.add(n.attr)
        if isinstance(n, ast.Call):
            if dotted(n.func) == "getattr" and len(n.args) >= 2 and isinstance(n.args[0], ast.Name) and n.args[0].id == param and isinstance(n.args[1], ast.Constant):
                out.add(n.args[1].value)
            for cal in db.resolve_call(n, f):
                g = cal.func
                if g is None or cal.kind != "func":
                    continue
                b = bind_args(n, g)
                for pname, a in b.items():
                    if isinstance(a, ast.Name) and a.id == param:
                        out |= _node_attr_names(db, g, pname, seen, depth + 1)
    return out


def cache_key_attrs(ctx) -> set[str] | None:
    """Node attributes the arguments of the ``compute_cache_key`` call depend on (through reaching definitions
    and the routing-configuration helper); the call is looked for in ``check_cache`` and in the helpers of the
    same module it hands the node to.  None when the call is not found."""
    db = ctx.db
    cc = db.func("runners._shared.caching.check_cache")
    cands: list[tuple[FuncInfo, str]] = [(cc, "node")]
    for c in db.calls_in(cc):
        for cal in db.resolve_call(c, cc):
            if cal.func is not None and cal.kind == "func" and cal.func.module == cc.module:
                for pn, a in (bind_args(c, cal.func) or {}).items():
                    if isinstance(a, ast.Name) and a.id == "node":
                        cands.append((cal.func, pn))
    for kf, nodep in cands:
        cfg = ctx.cfg(kf)
        rd = reaching_defs(cfg)
        kc = [(n, c) for n in cfg.nodes for c in cfg.calls_at(n) if "compute_cache_key" in call_names(db, c, kf)]
        if len(kc) != 1:
            continue
        n, c = kc[0]
        used: set[str] = set()

        def scan(e: ast.AST) -> None:
            for y in ast.walk(e):
                if isinstance(y, ast.Attribute) and isinstance(y.value, ast.Name) and y.value.id == nodep:
                    used.add(y.attr)
                if isinstance(y, ast.Call) and "_routing_config" in call_names(db, y, kf):
                    used.update(_node_attr_names(db, db.func("runners._shared.caching._routing_config"), "node"))

        for a in c.args:
            scan(a)
            for x in ast.walk(a):
                if isinstance(x, ast.Name):
                    for d, v in defs_reaching(cfg, rd, n, x.id):
                        if v is not None and not isinstance(v, (ast.FunctionDef, ast.ExceptHandler)):
                            scan(v)
        return used
    return None


def _executor_registry(db) -> dict[str, set[str]]:
    regs: dict[str, set[str]] = {}
    for f in db.funcs_in("runners"):
        if f.cls is None:
            continue
        for lit in db.registry_literals(f.cls, "_executors"):
            for k, v in zip(lit.keys, lit.values):
                if isinstance(v, ast.Call):
                    ks = db.resolve_expr_symbol(k, f.module, None)
                    vs = db.resolve_expr_symbol(v.func, f.module, None)
                    if ks and ks[0] == "class" and vs and vs[0] == "class":
                        regs.setdefault(ks[1].qname, set()).add(vs[1].qname)
    return regs


def check_key_covers_executor_reads(ctx, rule: str, only: tuple[str, ...] | None = None) -> None:
    """Every node attribute the executor of a cacheable node class consults is part of the cache key material
    (or covered by another key component, table COVERED); ``only`` restricts to classes with one of the names
    in their MRO."""
    db, rep = ctx.db, ctx.rep
    cc = db.func("runners._shared.caching.check_cache")
    d_key = _node_attr_names(db, cc, "node")
    rep.extra["key_material_attributes"] = sorted(d_key)
    classes = cacheable_classes(db)
    if len(classes) < 3:
        raise AnalysisError(f"only {len(classes)} cacheable node classes derived")
    regs = _executor_registry(db)
    for ci in classes:
        if only is not None and not any(c.name in only for c in ci.mro()):
            continue
        execs = set()
        for c in ci.mro():
            execs |= regs.get(c.qname, set())
        if not execs:
            if ci.subclasses:
                continue  # abstract intermediate class: its concrete subclasses are checked
            rep.bad(rule, f"{ci.name}:executors", ci.loc(), "cacheable node class has no registered executor")
            continue
        d_exec = set()
        for q in sorted(execs):
            ec = db.classes[q]
            call = ec.methods.get("__call__")
            if call is not None:
                d_exec |= _node_attr_names(db, call, "node")
        uncovered = sorted(a for a in d_exec if a not in d_key and a not in COVERED and not a.startswith("__"))
        rep.add(
            rule,
            f"{ci.name}",
            not uncovered,
            ci.loc(),
            f"executor reads {sorted(d_exec)}; all in the key material {sorted(d_key)} or covered" if not uncovered else f"executor consults node.{', node.'.join(uncovered)} but the cache key does not depend on it: two nodes differing only there share entries (a hit serves another node's payload" + (" — for a gate: another gate's routing decision is restored and the branch this gate did not select starts)" if any(c.name == "GateNode" for c in ci.mro()) else ")"),
        )


def check_hmac_key_full_or_fresh(ctx, rule: str) -> None:
    """The signing key handed to DiskCache is either 32 bytes read from the key file (the read is length-checked on the
    path to the return) or the freshly generated secret — never the content of a torn key file: a half-written or empty
    key makes every entry 'authenticated' with a key anyone knows."""
    db, rep = ctx.db, ctx.rep
    f = db.func("cache._load_or_create_hmac_key")
    cfg = ctx.cfg(f)
    rd = reaching_defs(cfg)
    rets = [n for n in cfg.nodes if n.kind == "stmt" and isinstance(n.ast, ast.Return) and isinstance(n.ast.value, ast.Name)]
    if not rets:
        raise AnalysisError("_load_or_create_hmac_key: returns not found")
    bad = None
    for r in rets:
        nm = r.ast.value.id
        guarded = any(isinstance(a, ast.If) and f"len({nm}) == 32" in src(a.test) and any(contains(b_, r.ast) for b_ in a.body) for a in ancestors(r.ast))
        for d, v in defs_reaching(cfg, rd, r, nm):
            if v is None:
                continue
            fresh = isinstance(v, ast.Call) and (dotted(v.func) or "").endswith("token_bytes") and v.args and isinstance(v.args[0], ast.Constant) and v.args[0].value == 32
            from_file = isinstance(v, ast.Call) and isinstance(v.func, ast.Attribute) and v.func.attr == "read"
            if fresh or (from_file and guarded):
                continue
            bad = (r, v)
    rep.add(rule, f"{f.qname}:key-full-or-fresh", bad is None, f"{f.module.rel}:{(bad[0] if bad else f.node).lineno}", f"{len(rets)} return(s): each hands out a length-checked file key or the fresh 32-byte secret" if bad is None else f"'return {bad[0].ast.value.id}' at line {bad[0].lineno} can hand out '{src(bad[1])}' without the 32-byte check: after a torn write of the key file (0 bytes) the loader re-reads the bad content over the key it just generated, writes it back and signs every entry with an empty key — the signature no longer authenticates anything")


def check_disk_store_unconditional(ctx, rule: str) -> None:
    """Once the value could be serialised, DiskCache.set writes the payload row and the signature row on every path: what
    is already on disk (a surviving signature row says nothing about the payload row — eviction, a type-changed or
    missing payload) never makes it skip the write, else the entry is never re-stored and the node runs again and again."""
    db, rep = ctx.db, ctx.rep
    dc = db.cls("cache.DiskCache")
    st = dc.methods["set"]
    cfg = ctx.cfg(st)
    store_nodes = [n for n in cfg.nodes if any(isinstance(c.func, ast.Attribute) and c.func.attr in ("set", "add", "__setitem__") and src(c.func.value) == "self._cache" for c in cfg.calls_at(n))]
    tr = next((t for t in walk_local(st.node) if isinstance(t, ast.Try) and any(isinstance(c, ast.Call) and (dotted(c.func) or "").endswith("dumps") for b in t.body for c in ast.walk(b))), None)
    if tr is None or len(store_nodes) < 2:
        raise AnalysisError("DiskCache.set: serialisation try / two store calls not found")
    body = st.body
    after = None
    for i, b in enumerate(body):
        if b is tr and i + 1 < len(body):
            after = next((n for n in cfg.nodes if n.ast is body[i + 1] or (n.ast is not None and contains(body[i + 1], n.ast) and n.lineno == body[i + 1].lineno)), None)
    if after is None:
        raise AnalysisError("DiskCache.set: statement after the serialisation step not found")
    okd = all(all_paths_pass(after, cfg.exit_return, [sn]) for sn in store_nodes)
    reads = [n for n in cfg.nodes if any(isinstance(c.func, ast.Attribute) and c.func.attr in ("get", "__contains__", "__getitem__") and src(c.func.value) == "self._cache" for c in cfg.calls_at(n))] + [n for n in cfg.nodes if n.kind == "test" and n.ast is not None and "self._cache" in src(n.ast)]
    rep.add(rule, f"{st.qname}:store-unconditional", okd and not reads, f"{st.module.rel}:{(reads[0] if reads else st.node).lineno}", "after serialisation both rows are written on every path; the write never depends on what the store already holds" if okd and not reads else f"the write depends on the current content of the store ('{src(reads[0].ast)[:70] if reads else 'a path skips a row'}'): after the payload row alone was lost (eviction, a missing or type-changed payload — each read as a miss) the matching signature row makes set() skip the re-store, so every later run misses again and re-invokes a function that already completed")


def run(ctx) -> None:
    db, rep = ctx.db, ctx.rep
    rep.rule("C09.R1", "cache key covers every node attribute the executor consults", floor=4)
    rep.rule("C09.R2", "HMAC verified before deserialisation, over the same bytes and key", floor=3)
    rep.rule("C09.R3", "every anomaly is a miss: no other value, no exception", floor=6)
    rep.rule("C09.R4", "fresh dict on hit and on store; internal routing key only in the stored copy", floor=3)
    rep.rule("C09.R5", "no other deserialisation of stored bytes in the package", floor=1)
    rep.rule("C09.R6", "opt-in respected; hit skips execution; store after success", floor=5)
    rep.rule("C09.R7", "routing decision restored before the state write on a hit", floor=2)
    rep.rule("C09.R8", "in-memory LRU only removes entries", floor=2)
    rep.rule("C09.R9", "identity-compared emit sentinels are re-applied when an entry is served", floor=1)

    cc = db.func("runners._shared.caching.check_cache")
    # ---- R1 ---------------------------------------------------------------------
    check_key_covers_executor_reads(ctx, "C09.R1")
    classes = cacheable_classes(db)
    regs = _executor_registry(db)
    # the identity and inputs actually flow into compute_cache_key
    used = cache_key_attrs(ctx)
    ok = used is not None
    why = "compute_cache_key call not found"
    if ok:
        need = {"definition_hash", "data_outputs", "outputs", "map_inputs_to_params"}
        ok = need <= used
        why = f"key = f(definition hash, node type, output names, routing configuration, arguments under parameter names): uses {sorted(used)}" if ok else f"the arguments of compute_cache_key no longer depend on {sorted(need - used)}"
    rep.add("C09.R1", f"{cc.qname}:key-arguments", ok, cc.loc(), why)
    # definition_hash covers func
    for ci in classes:
        if ci.subclasses and not any(ci.qname in regs for _ in [0]):
            continue
        init = ci.find_method("__init__")
        okh = False
        for c in ci.mro():
            i2 = c.methods.get("__init__")
            if i2 is not None and any(isinstance(n, ast.Assign) and any(src(t) == "self._definition_hash" for t in n.targets) and isinstance(n.value, ast.Call) and "hash_definition" in call_names(db, n.value, i2) and n.value.args and src(n.value.args[0]) == "func" for n in walk_local(i2.node)):
                okh = True
        rep.add("C09.R1", f"{ci.name}:definition-hash-of-func", okh, ci.loc(), "definition_hash = hash_definition(func)" if okh else "definition_hash is not computed from the node's function")

    # what hash_definition hashes: on every path that identifies the function by its code (source text or
    # bytecode) the captured values are mixed in as well, and sequences of values are hashed as one delimited
    # rendering (repr of a tuple), never by feeding the elements' reprs one after another
    hd = db.func("_utils.hash_definition")
    hcfg = ctx.cfg(hd)
    clo_fs = {g for g in db.closure([hd], property_reads=False) if any(isinstance(x, ast.Constant) and x.value == "__closure__" for x in ast.walk(g.node)) or any(isinstance(x, ast.Attribute) and x.attr == "__closure__" for x in ast.walk(g.node))}
    clo_nodes = [n for n in hcfg.nodes if any(cal.func in clo_fs for c in hcfg.calls_at(n) for cal in db.resolve_call(c, hd)) or any(isinstance(x, ast.Constant) and x.value == "__closure__" or isinstance(x, ast.Attribute) and x.attr == "__closure__" for e in hcfg.header_exprs(n) for x in ast.walk(e))]
    code_rets = []
    for r in hcfg.nodes:
        if r.kind == "stmt" and isinstance(r.ast, ast.Return) and r.ast.value is not None and "hexdigest" in src(r.ast.value):
            names = {x.id for x in ast.walk(r.ast.value) if isinstance(x, ast.Name)}
            for _ in range(2):
                names |= {y.id for nm in list(names) for d in db.local_defs(hd).get(nm, []) for y in ast.walk(d) if isinstance(y, ast.Name)}
            by_name = any(any(isinstance(y, ast.Constant) and y.value in ("__qualname__", "__module__", "__name__") for d in db.local_defs(hd).get(nm, []) for y in ast.walk(d)) for nm in names)
            if not by_name:
                code_rets.append(r)
    okc = bool(code_rets) and bool(clo_nodes) and all(all_paths_pass(hcfg.entry, r, clo_nodes, lambda a, b, l, i: l != "exc") for r in code_rets)
    rep.add("C09.R1", f"{hd.qname}:captured-values-hashed", okc, hd.loc(), f"all {len(code_rets)} code-identifying hash results include the function's captured values" if okc else "a path returns a hash of the source text / bytecode alone: functions produced by one factory (same source, different captured values) get the same definition hash and, with equal inputs, each other's cache entries")
    # the rendering of a captured value enters the hash as it is: nothing is cut out of it or substituted in it (distinct
    # objects whose reprs differ only in the part removed — default reprs differ only by address — would share a hash)
    for g in sorted(clo_fs, key=lambda x: x.qname):
        reprs = [c for c in walk_local(g.node) if isinstance(c, ast.Call) and dotted(c.func) == "repr" and c.args and "cell" in src(c.args[0])]
        lossy = None
        for c in reprs:
            par = getattr(c, "_parent", None)
            if isinstance(par, ast.Call) and c in par.args and isinstance(par.func, ast.Attribute) and par.func.attr in ("sub", "subn", "replace", "split", "strip", "lstrip", "rstrip", "partition", "rpartition", "translate", "removeprefix", "removesuffix"):
                lossy = par
            elif isinstance(par, ast.Attribute) and par.attr in ("replace", "split", "strip", "partition", "rpartition", "translate", "lower", "upper", "removeprefix", "removesuffix"):
                lossy = par
            elif isinstance(par, ast.Subscript):
                lossy = par
        if reprs:
            rep.add("C09.R1", f"{g.qname}:captured-value-rendering-kept-whole", lossy is None, f"{g.module.rel}:{(lossy or g.node).lineno}", "each captured value's repr is hashed unmodified" if lossy is None else f"'{src(lossy)[:70]}' edits the rendering of a captured value before it is hashed: two nodes made by one factory that captured different objects with default reprs (or two different helper lambdas) differ only in what is removed, get one definition hash, and with equal arguments the second is served the first one's entry")
    # functions that share their source text are told apart by their code: inspect.getsource() returns the whole line
    # for a lambda, so two lambdas written on one line share it.  On the path that hashes the source, the code object
    # enters the hash at least when the function is a lambda.
    src_rets = [r for r in code_rets if any("getsource" in src(d) for nm in {x.id for x in ast.walk(r.ast.value) if isinstance(x, ast.Name)} for d in db.local_defs(hd).get(nm, []))] or code_rets[:1]
    code_updates = [n for n in hcfg.nodes if n.kind == "stmt" and n.ast is not None and any(isinstance(x, ast.Attribute) and x.attr == "co_code" for x in ast.walk(n.ast))]
    first_ret = min(code_rets, key=lambda r: r.lineno) if code_rets else None
    okl = first_ret is not None and any(reaches(u, first_ret) for u in code_updates)
    rep.add("C09.R1", f"{hd.qname}:same-source-told-apart", okl, hd.loc(), "on the source path the code object is hashed as well where several functions can share the text (lambdas)" if okl else "the source path hashes the text inspect.getsource() returns and nothing of the code object: two lambdas written on one line (e.g. in a list) share their definition hash and, with equal arguments and output names, their cache entries — the second is served the first's result")
    loose = []
    for g in [hd] + sorted(clo_fs, key=lambda f_: f_.qname):
        for lp in [n for n in walk_local(g.node) if isinstance(n, ast.For)]:
            for c in ast.walk(lp):
                if isinstance(c, ast.Call) and isinstance(c.func, ast.Attribute) and c.func.attr == "update" and isinstance(c.func.value, ast.Name) and any(isinstance(x, ast.Call) and dotted(x.func) == "repr" for x in ast.walk(c)):
                    loose.append(c)
    rep.add("C09.R1", f"{hd.qname}:delimited-sequences", not loose, f"{hd.module.rel}:{loose[0].lineno if loose else hd.lineno}", "no sequence of values is hashed by concatenating element reprs" if not loose else f"'{src(loose[0])[:60]}' feeds element reprs into the hash one after another without a delimiter: (2, 50) and (25, 0) give the same digest")

    # ---- R2 / R3 / R5 -----------------------------------------------------------
    dc = db.cls("cache.DiskCache")
    get = dc.methods["get"]
    gcfg = ctx.cfg(get)
    grd = reaching_defs(gcfg)
    dom = dominators(gcfg.entry)
    loads = [(n, c) for n in gcfg.nodes for c in gcfg.calls_at(n) if dotted(c.func) in ("pickle.loads", "pickle.load")]
    n_loads_pkg = 0
    for f in db.all_funcs():
        for c in db.calls_in(f):
            if dotted(c.func) in ("pickle.loads", "pickle.load", "marshal.loads", "dill.loads", "cloudpickle.loads") or (isinstance(c.func, ast.Attribute) and c.func.attr in ("loads", "load") and "pickle" in src(c.func)):
                n_loads_pkg += 1
                ok = f is get
                rep.add("C09.R5", f"{f.qname}:{dotted(c.func)}", ok, f"{f.module.rel}:{c.lineno}", "the only deserialisation site (behind HMAC verification)" if ok else "stored bytes are deserialised outside the verified read path")
    if not loads:
        raise AnalysisError("DiskCache.get: no pickle.loads found")
    # ... nor by the third-party store on our behalf: diskcache unpickles a row stored in its pickle mode inside Cache.get,
    # before DiskCache has seen a signature.  DiskCache writes raw bytes and an ASCII digest only, so the store is opened
    # with a Disk whose fetch() refuses pickle mode (a row whose type was changed then reads as missing)
    dinit = dc.methods.get("__init__")
    safe_disk = False
    if dinit is not None:
        disk_classes = [n for n in ast.walk(dinit.node) if isinstance(n, ast.ClassDef)] + [k.node for k in db.classes.values() if k.module.name == "hypergraph.cache"]
        refusing = set()
        for cd in disk_classes:
            for m_ in cd.body:
                if isinstance(m_, ast.FunctionDef) and m_.name == "fetch":
                    for i_ in [x for x in ast.walk(m_) if isinstance(x, ast.If) and "MODE_PICKLE" in src(x.test)]:
                        if i_.body and isinstance(i_.body[0], ast.Return) and not any(isinstance(y, ast.Call) for y in ast.walk(i_.body[0])):
                            refusing.add(cd.name)
        for c in [x for x in ast.walk(dinit.node) if isinstance(x, ast.Call)]:
            if (dotted(c.func) or "").endswith("Cache") and "diskcache" in (dotted(c.func) or ""):
                kw = {k.arg: k.value for k in c.keywords}
                if "disk" in kw and src(kw["disk"]) in refusing:
                    safe_disk = True
                if None in kw or any(k.arg is None for k in c.keywords):
                    # **kwargs: a preceding kwargs.setdefault("disk", <refusing class>) / kwargs["disk"] = ...
                    for x in ast.walk(dinit.node):
                        if isinstance(x, ast.Call) and isinstance(x.func, ast.Attribute) and x.func.attr == "setdefault" and len(x.args) == 2 and isinstance(x.args[0], ast.Constant) and x.args[0].value == "disk" and src(x.args[1]) in refusing and x.lineno < c.lineno:
                            safe_disk = True
    rep.add("C09.R5", f"{dc.qname}:store-never-unpickles", safe_disk, (dinit or dc).loc(), "the disk store is opened with a Disk that reads pickle-mode rows as missing" if safe_disk else "the diskcache store is opened with its default Disk: a payload or signature row replaced by a non-bytes object is stored in pickle mode and unpickled by diskcache inside Cache.get — before any signature check ('type change' corruption runs unauthenticated code)")
    from sa.cfg import single_defs

    sdefs = single_defs(gcfg)

    def _expanded(e: ast.AST) -> list[ast.AST]:
        out = [e]
        for x in ast.walk(e):
            if isinstance(x, ast.Name) and x.id in sdefs:
                out.append(sdefs[x.id])
        return out

    # the MAC helper authenticates everything it is given: secret, entry key and payload all flow into the hmac call
    # (a digest over the payload alone lets a valid record be replayed under another key)
    mh = db.maybe_func("cache._compute_hmac_bytes")
    if mh is None:
        raise AnalysisError("cache._compute_hmac_bytes vanished")
    mcalls = [c for c in db.calls_in(mh) if (dotted(c.func) or "") in ("hmac.new", "hmac.digest", "hmac.HMAC")]
    flow: set[str] = set()
    for c in mcalls:
        todo = [x.id for a in list(c.args) + [k.value for k in c.keywords] for x in ast.walk(a) if isinstance(x, ast.Name)]
        while todo:
            nm = todo.pop()
            if nm in flow:
                continue
            flow.add(nm)
            for d in db.local_defs(mh).get(nm, []):
                v = getattr(d, "value", None)
                if v is not None:
                    todo += [x.id for x in ast.walk(v) if isinstance(x, ast.Name)]
    missing = [p_ for p_ in mh.param_names if p_ not in flow]
    rep.add("C09.R2", f"{mh.qname}:covers-key-and-payload", bool(mcalls) and not missing, mh.loc(), "secret, entry key and payload all flow into the HMAC" if mcalls and not missing else f"parameter(s) {missing} of the MAC helper do not reach the hmac call: the signature no longer binds the payload to the key it was stored under, so a valid (payload, signature) pair copied over another entry verifies and is served for the wrong arguments")
    cmp_tests = [n for n in gcfg.nodes if n.kind == "test" and any(isinstance(c, ast.Call) and dotted(c.func) == "hmac.compare_digest" for e in _expanded(n.ast) for c in ast.walk(e))]
    for i, (ln, lc) in enumerate(loads):
        ok = bool(cmp_tests)
        why = "no hmac.compare_digest test in get()"
        if ok:
            t = cmp_tests[0]
            neg = isinstance(t.ast, ast.UnaryOp) and isinstance(t.ast.op, ast.Not)
            fail_edge = "T" if neg else "F"
            fail_tgt = [x for x, l, _ in t.succ if l == fail_edge]
            ok = t in dom.get(ln, set()) and bool(fail_tgt) and not reaches(fail_tgt[0], ln)
            why = "pickle.loads is reachable only through the 'digest equal' branch" if ok else "pickle.loads is reachable without (or on the failing branch of) the HMAC comparison: unauthenticated bytes are deserialised"
        rep.add("C09.R2", f"{get.qname}:verify-before-loads#{i}", ok, f"{get.module.rel}:{ln.lineno}", why)
    ln, lc = loads[-1]
    if cmp_tests:
        t = cmp_tests[0]
        cc_call = [c for e in _expanded(t.ast) for c in ast.walk(e) if isinstance(c, ast.Call) and dotted(c.func) == "hmac.compare_digest"][0]
        a_names = [a.id for a in cc_call.args if isinstance(a, ast.Name)]
        payload = lc.args[0].id if lc.args and isinstance(lc.args[0], ast.Name) else None
        exp_ok = stored_ok = False
        # on *every* path one operand is the digest recomputed over (secret, key, payload) and the other the stored one:
        # a remembered verdict or the stored digest standing in for the recomputation authenticates nothing
        for nm in a_names:
            kinds = set()
            for d, v in defs_reaching(gcfg, grd, t, nm):
                if isinstance(v, ast.Call) and "_compute_hmac_bytes" in call_names(db, v, get):
                    args = [src(a) for a in v.args]
                    kinds.add("computed" if payload in args and "key" in args and any("_hmac_key" in a for a in args) else "other")
                elif isinstance(v, ast.Call) and isinstance(v.func, ast.Attribute) and v.func.attr == "get" and "_cache" in src(v.func.value):
                    kinds.add("stored" if v.args and "key" in src(v.args[0]) and "_HMAC_SUFFIX" in src(v.args[0]) else "other")
                else:
                    kinds.add("other")
            if kinds == {"computed"}:
                exp_ok = True
            if kinds == {"stored"}:
                stored_ok = True
        same_payload = payload is not None and len({d for d, _ in defs_reaching(gcfg, grd, ln, payload)}) == 1
        rep.add("C09.R2", f"{get.qname}:digest-over-same-bytes", exp_ok and same_payload, f"{get.module.rel}:{t.lineno}", "expected digest = HMAC(secret, key, the very bytes that are later deserialised)" if exp_ok and same_payload else "the digest is not computed over the bytes that are deserialised (a swapped payload would verify)")
        rep.add("C09.R2", f"{get.qname}:stored-digest-by-key", bool(stored_ok), f"{get.module.rel}:{t.lineno}", "stored digest is read under key + suffix" if stored_ok else "stored digest is not read under this entry's key")
    # R3: exits
    rets = [n for n in gcfg.nodes if n.kind == "stmt" and isinstance(n.ast, ast.Return)]
    hit_rets = [r for r in rets if isinstance(r.ast.value, ast.Tuple) and isinstance(r.ast.value.elts[0], ast.Constant) and r.ast.value.elts[0].value is True]
    miss_rets = [r for r in rets if r not in hit_rets]
    ok = len(hit_rets) == 1 and all(isinstance(r.ast.value, ast.Tuple) and len(r.ast.value.elts) == 2 and isinstance(r.ast.value.elts[0], ast.Constant) and r.ast.value.elts[0].value is False and isinstance(r.ast.value.elts[1], ast.Constant) and r.ast.value.elts[1].value is None for r in miss_rets)
    rep.add("C09.R3", f"{get.qname}:exits", ok, get.loc(), f"one hit exit, {len(miss_rets)} miss exits all returning (False, None)" if ok else "an exit of get() returns something other than the verified value or the miss tuple")
    if hit_rets:
        r = hit_rets[0]
        v = r.ast.value.elts[1]
        okv = isinstance(v, ast.Name) and all(isinstance(val, ast.Call) and dotted(val.func) == "pickle.loads" for d, val in defs_reaching(gcfg, grd, r, v.id)) and ln in dom.get(r, set())
        rep.add("C09.R3", f"{get.qname}:hit-value", okv, f"{get.module.rel}:{r.lineno}", "the value of a hit is exactly what pickle.loads produced after verification" if okv else "a hit can return a value that did not come from the verified deserialisation")
    tr = enclosing(lc, (ast.Try,))
    okt = tr is not None and any(gcfg.definitely_caught("Exception", gcfg._handler_names(h)) and any(isinstance(s, ast.Return) for s in h.body) for h in tr.handlers)
    rep.add("C09.R3", f"{get.qname}:loads-guarded", okt, f"{get.module.rel}:{ln.lineno}", "deserialisation failures are caught and returned as a miss" if okt else "a failing deserialisation (truncated / half-written payload that still verifies) propagates as an exception")
    # rows are read through the third-party store, which decodes them (a text column that is no longer valid UTF-8 makes
    # sqlite raise): every read of a row in get() is guarded, the failure counting as an altered row, i.e. a miss
    row_reads = [c for c in walk_local(get.node) if isinstance(c, ast.Call) and isinstance(c.func, ast.Attribute) and c.func.attr in ("get", "__getitem__", "read") and src(c.func.value) == "self._cache"]
    unguarded_reads = [c for c in row_reads if not any(isinstance(a, ast.Try) and any(contains(b_, c) for b_ in a.body) and any(h.type is None or "Exception" in src(h.type) for h in a.handlers) for a in ancestors(c))]
    rep.add("C09.R3", f"{get.qname}:row-reads-guarded", bool(row_reads) and not unguarded_reads, f"{get.module.rel}:{(unguarded_reads[0] if unguarded_reads else get.node).lineno}", f"{len(row_reads)} read(s) of a stored row, each inside 'except Exception'" if row_reads and not unguarded_reads else f"'{src(unguarded_reads[0])[:60] if unguarded_reads else '?'}' reads a stored row outside any handler: a row the store cannot decode (a flipped byte that makes the signature text invalid UTF-8) raises sqlite3.OperationalError out of get() — an altered signature raises instead of behaving as a miss, and the run fails")
    # tainted consumers
    tainted = set()
    for n in gcfg.nodes:
        if n.kind == "stmt" and isinstance(n.ast, ast.Assign) and isinstance(n.ast.value, ast.Call) and isinstance(n.ast.value.func, ast.Attribute) and n.ast.value.func.attr == "get" and "_cache" in src(n.ast.value.func.value):
            tainted |= {t.id for t in n.ast.targets if isinstance(t, ast.Name)}
    for n in gcfg.nodes:
        for c in gcfg.calls_at(n):
            d = dotted(c.func) or src(c.func)
            targs = [a.id for a in c.args if isinstance(a, ast.Name) and a.id in tainted]
            if not targs or d in ("isinstance",) or d.startswith("logger.") or "_cache." in d:
                continue
            guarded_try = False
            for a in ancestors(c):
                if isinstance(a, ast.Try) and any(contains(s, c) for s in a.body) and any(gcfg.definitely_caught("Exception", gcfg._handler_names(h)) for h in a.handlers):
                    guarded_try = True
            ok = guarded_try
            why = "inside try/except Exception -> miss"
            if not ok:
                # type guards that dominate the call with a failing branch that does not reach it
                guards = []
                for t in gcfg.nodes:
                    if t.kind == "test" and t in dom.get(n, set()):
                        guards.append(src(t.ast))
                gtxt = " ; ".join(guards)
                if d == "hmac.compare_digest":
                    ok = all(f"isinstance({a}, str)" in gtxt and f"{a}.isascii()" in gtxt for a in targs)
                    why = "stored digest is guarded to be an ASCII str before compare_digest" if ok else "hmac.compare_digest raises TypeError for a non-ASCII (or non-str) stored digest: an altered signature makes get() raise instead of miss"
                elif "_compute_hmac_bytes" in call_names(db, c, get):
                    ok = all(f"isinstance({a}, bytes)" in gtxt for a in targs)
                    why = "payload is guarded to be bytes before it is signed" if ok else "the payload reaches the HMAC computation without a bytes guard (type-changed entry raises)"
                else:
                    ok = False
                    why = f"{d}() consumes stored data outside any guard"
            rep.add("C09.R3", f"{get.qname}:{d}", ok, f"{get.module.rel}:{n.lineno}", why)
    # set(): both halves written, payload first, unpicklable values skipped
    st = dc.methods["set"]
    sets = [c for c in db.calls_in(st) if isinstance(c.func, ast.Attribute) and c.func.attr == "set" and "_cache" in src(c.func.value)]
    ok = len(sets) == 2 and "_HMAC_SUFFIX" not in src(sets[0].args[0]) and "_HMAC_SUFFIX" in src(sets[1].args[0]) and sets[0].lineno < sets[1].lineno
    rep.add("C09.R3", f"{st.qname}:two-writes", ok, st.loc(), "payload and digest are written under key and key+suffix (either half missing or stale fails verification on read)" if ok else "set() does not write payload and digest as two keyed entries")
    # serialisation runs user code (__reduce__, __getstate__): whatever it raises while a key is computed or an entry is
    # written makes the node uncacheable for that call — it never fails a run that succeeds without a cache
    for f3 in db.funcs_in("cache"):
        for c3 in db.calls_in(f3):
            if (dotted(c3.func) or "") != "pickle.dumps":
                continue
            tr3 = next((a for a in ancestors(c3) if isinstance(a, ast.Try) and any(contains(s_, c3) for s_ in a.body)), None)
            wide = tr3 is not None and any(h.type is None or src(h.type) in ("Exception", "BaseException") for h in tr3.handlers) and not any(isinstance(x, ast.Raise) for h in tr3.handlers for x in ast.walk(h))
            rep.add("C09.R3", f"{f3.qname}:serialisation-failure-is-a-miss", wide, f"{f3.module.rel}:{c3.lineno}", "any failure of pickle.dumps is caught and treated as 'not cacheable'" if wide else "pickle.dumps is guarded for a few exception types only: an argument or output whose __reduce__/__getstate__ raises anything else (ValueError, RuntimeError...) makes the cached run fail where the uncached run completes")

    # ---- R4 ---------------------------------------------------------------------
    sic = db.func("runners._shared.caching.store_in_cache")
    hit = [n for n in walk_local(cc.node) if isinstance(n, ast.Return) and isinstance(n.value, ast.Tuple) and len(n.value.elts) == 2 and not (isinstance(n.value.elts[1], ast.Constant))]

    def _fresh_copy(e: ast.AST) -> bool:
        if isinstance(e, ast.Call) and dotted(e.func) in ("dict", "copy.copy", "copy.deepcopy"):
            return True
        if isinstance(e, ast.Name):
            ds = [d for d in db.local_defs(cc).get(e.id, []) if isinstance(d, (ast.Assign, ast.AnnAssign))]
            return bool(ds) and all(_fresh_copy(d.value) for d in ds)
        return False

    ok = bool(hit) and all(_fresh_copy(r.value.elts[1]) for r in hit)
    rep.add("C09.R4", f"{cc.qname}:fresh-on-hit", ok, cc.loc(), "a hit hands out a fresh dict (the restore step pops from it; the backend's object is untouched)" if ok else "a hit hands out the backend's own dict: popping the internal routing key / applying it to state corrupts the stored entry")
    tc = [n for n in walk_local(sic.node) if isinstance(n, ast.Assign) and isinstance(n.value, ast.Call) and dotted(n.value.func) == "dict" and n.value.args and src(n.value.args[0]) == "outputs"]
    ok = len(tc) == 1
    if ok:
        nm = tc[0].targets[0].id
        stores = [n for n in walk_local(sic.node) if isinstance(n, ast.Assign) and any(isinstance(t, ast.Subscript) and "_ROUTING_DECISION_KEY" in src(t.slice) for t in n.targets)]
        ok = bool(stores) and all(isinstance(t, ast.Subscript) and isinstance(t.value, ast.Name) and t.value.id == nm for s_ in stores for t in s_.targets)
        sets_ = [c for c in db.calls_in(sic) if isinstance(c.func, ast.Attribute) and c.func.attr == "set" and src(c.func.value) == "cache"]
        ok = ok and len(sets_) == 1 and len(sets_[0].args) == 2 and src(sets_[0].args[1]) == nm
    rep.add("C09.R4", f"{sic.qname}:copy-on-store", ok, sic.loc(), "the stored dict is a fresh copy; only it receives the internal routing key" if ok else "the internal routing key is written into the node's live outputs (it would leak into the state and results) or the live dict is stored")
    rrd = db.func("runners._shared.caching.restore_routing_decision")
    ok = any(isinstance(c.func, ast.Attribute) and c.func.attr == "pop" and c.args and "_ROUTING_DECISION_KEY" in src(c.args[0]) and src(c.func.value) == "outputs" for c in db.calls_in(rrd))
    gate_guard = any(isinstance(n, ast.If) and "isinstance" in src(n.test) and any(isinstance(s, ast.Return) for s in n.body) for n in walk_local(rrd.node))
    rep.add("C09.R4", f"{rrd.qname}:pops-internal-key", ok and gate_guard, rrd.loc(), "restore pops the internal key from the outputs of gate nodes" if ok and gate_guard else "restore does not pop the internal routing key from the cached outputs")
    # the *values* of an entry are isolated from what nodes receive: a backend that keeps references serves the same
    # objects on every hit, so a downstream node that changes a cached value in place changes the entry — later runs
    # differ from the uncached run.  Either the backend copies/serialises (set or get), or the served payload is deep-copied.
    deep_on_hit = any(isinstance(c_, ast.Call) and (dotted(c_.func) or "").split(".")[-1] == "deepcopy" for c_ in db.calls_in(cc))
    for ci_ in [k for k in db.classes.values() if k.module.name == "hypergraph.cache" and "get" in k.methods and "set" in k.methods and "Protocol" not in k.all_ext_bases() and not any(src(b).endswith("Protocol") for b in k.node.bases)]:
        g_, s_ = ci_.methods["get"], ci_.methods["set"]
        copies = any((dotted(c_.func) or "").split(".")[-1] in ("deepcopy", "dumps", "loads") for m_ in (g_, s_) for c_ in db.calls_in(m_))
        oki = copies or deep_on_hit
        rep.add("C09.R4", f"{ci_.qname}:values-isolated", oki, ci_.loc(), "the backend serialises / copies values, entries cannot be changed through served objects" if oki else "the backend stores and serves object references (only the outer dict is copied on a hit): make(n)->[n] cached, consume(items) appending in place gives totals 103, 203, 303 on three runs where the uncached run gives 103 each time")

    # ---- R9: identity-compared sentinels must not come back from a serialising backend ----
    check_hit_restores_sentinel(ctx, "C09.R9")

    # ---- R6 / R7 -----------------------------------------------------------------
    # only what a node computed is stored: the answer a caller supplies for an interrupt is used as given — it is
    # neither looked up nor filed as the node's result (else a later run that should pause is served the human's answer)
    from .c14 import check_resume_bypasses_cache

    check_resume_bypasses_cache(ctx, "C09.R6")
    check_disk_store_unconditional(ctx, "C09.R6")
    check_hmac_key_full_or_fresh(ctx, "C09.R2")
    ccfg = ctx.cfg(cc)
    cdom = dominators(ccfg.entry)

    def opt_tests(g_cfg):
        return [n for n in g_cfg.nodes if n.kind == "test" and ("cache" in src(n.ast) and "getattr" in src(n.ast) or src(n.ast) in ("not node.cache",))]

    backend = [n for n in ccfg.nodes if any(isinstance(c.func, ast.Attribute) and c.func.attr in ("get", "set") and src(c.func.value) == "cache" for c in ccfg.calls_at(n))]
    # the key may be computed by a helper of the same module: its result is the key variable here
    key_helpers = [g for g in db.funcs_in("runners._shared.caching") if g is not cc and g.parent is None and any("compute_cache_key" in call_names(db, c, g) for c in db.calls_in(g))]
    keyvars = set(vars_from_call(db, cc, {"compute_cache_key"} | {g.name for g in key_helpers}))
    emptykey = [n for n in ccfg.nodes if n.kind == "test" and isinstance(n.ast, ast.UnaryOp) and isinstance(n.ast.op, ast.Not) and isinstance(n.ast.operand, ast.Name) and n.ast.operand.id in keyvars]
    empty_ok = bool(emptykey) and bool(backend) and all(emptykey[0] in cdom.get(b, set()) for b in backend)
    opt = opt_tests(ccfg)
    ok = bool(opt) and bool(backend)
    if ok:
        t = opt[0]
        tgt = [x for x, l, _ in t.succ if l == "T"]
        ok = all(t in cdom.get(b, set()) for b in backend) and bool(tgt) and not any(reaches(tgt[0], b) for b in backend)
    elif key_helpers and empty_ok:
        # opt-in tested inside the key helper: its 'not opted in' branch returns an empty key without building one,
        # and the empty key never reaches the backend (checked below)
        ok = True
        for g in key_helpers:
            gcfg = ctx.cfg(g)
            gopt = opt_tests(gcfg)
            builders = [n for n in gcfg.nodes if any("compute_cache_key" in call_names(db, c, g) for c in gcfg.calls_at(n))]
            tgt = [x for t_ in gopt[:1] for x, l, _ in t_.succ if l == "T"]
            falsy_rets = all(isinstance(r.ast.value, ast.Constant) and not r.ast.value.value for r in (reachable(tgt[0]) if tgt else []) if r.kind == "stmt" and isinstance(r.ast, ast.Return))
            if not (gopt and tgt and falsy_rets and not any(reaches(tgt[0], b) for b in builders)):
                ok = False
    rep.add("C09.R6", f"{cc.qname}:opt-in", ok, cc.loc(), "a node that did not opt in never reaches the backend" if ok else "a node that did not opt in can be looked up in the cache")
    ok = empty_ok
    rep.add("C09.R6", f"{cc.qname}:unpicklable-inputs", ok, cc.loc(), "an empty key (unpicklable inputs) never reaches the backend" if ok else "an empty key can be used for a look-up: all nodes with unpicklable inputs would share one entry")
    for ss in superstep_funcs(db):
        fs = [ss] + list(ss.children.values())
        for f in fs:
            if not any("check_cache" in call_names(db, c, f) for c in db.calls_in(f)):
                continue
            cfg2 = ctx.cfg(f, runner_no_raise(db))
            dom2 = dominators(cfg2.entry)
            cvars = vars_from_call(db, f, {"check_cache"}, index=1) or ["cached_outputs"]
            hit_val = specialize({f"{v} is None": False for v in cvars})
            miss_val = specialize({f"{v} is None": True for v in cvars})
            execs = [n for n in cfg2.nodes if any(isinstance(c.func, ast.Name) and c.func.id == "execute_node" for c in cfg2.calls_at(n))]
            stores = [n for n in cfg2.nodes if any("store_in_cache" in call_names(db, c, f) for c in cfg2.calls_at(n))]
            restores = [n for n in cfg2.nodes if any("restore_routing_decision" in call_names(db, c, f) for c in cfg2.calls_at(n))]
            checks = [n for n in cfg2.nodes if any("check_cache" in call_names(db, c, f) for c in cfg2.calls_at(n))]
            if not restores:
                rep.bad("C09.R7", f"{f.qname}:restore-before-apply", f.loc(), "the cached routing decision is never restored on a hit (a cached gate would route nowhere and its internal key would leak into the state)")
            if execs and checks and not stores:
                rep.bad("C09.R6", f"{f.qname}:stored-on-completion", f.loc(), "the function that looks a node up and executes it does not store its result: the write happens elsewhere (e.g. after the step's results were gathered and checked), so a node that completed in a step where a sibling failed is never stored and its function runs again on the next run although nothing was evicted")
                continue
            if not (execs and stores and checks):
                rep.bad("C09.R6", f"{f.qname}:structure", f.loc(), "cache check / execute / store sites not all found")
                continue
            # the entry is filed under the key the look-up used, computed before the node ran: a key rebuilt after
            # execution is taken from arguments the node function may have changed in place
            kvars = set(vars_from_call(db, f, {"check_cache"}, index=0))
            sic_ = db.func("runners._shared.caching.store_in_cache")
            for sn in stores:
                for c in cfg2.calls_at(sn):
                    if "store_in_cache" in call_names(db, c, f):
                        passes_key = any(isinstance(a, ast.Name) and a.id in kvars for a in list(c.args) + [k.value for k in c.keywords])
                        rebuilt = [g.qname for g in db.closure([sic_], property_reads=False) if any("compute_cache_key" in call_names(db, c2, g) for c2 in db.calls_in(g))]
                        oks = passes_key and not rebuilt
                        rep.add("C09.R6", f"{f.qname}:store-under-lookup-key", oks, f"{f.module.rel}:{c.lineno}", "the result is stored under the key the look-up computed before execution" if oks else "the store key is " + ("rebuilt after execution" if rebuilt else "not the look-up key") + ": a node function that updates an argument in place files its result under the post-call arguments — a later call with those arguments is served this entry, the original call misses")
            if not restores:
                continue
            start = checks[0]
            live_hit = reachable(start, hit_val)
            ok = not any(e in live_hit for e in execs) and not any(s in live_hit for s in stores)
            rep.add("C09.R6", f"{f.qname}:hit-skips-execution", ok, f"{f.module.rel}:{start.lineno}", "on a hit neither the executor nor a store is reachable" if ok else "the node function can run (or the entry be rewritten) although the cache returned a hit")
            ok = all(any(e in dom2.get(s, set()) for e in execs) for s in stores) and all(not any(reaches(h, s) for h in cfg2.nodes if h.kind == "handler") for s in stores)
            # store only with a key and a backend
            for s in stores:
                g = enclosing([c for c in cfg2.calls_at(s) if "store_in_cache" in call_names(db, c, f)][0], (ast.If,))
                kvars = vars_from_call(db, f, {"check_cache"}, index=0) or ["cache_key"]
                if g is None or not any(isinstance(x, ast.Name) and x.id in kvars for x in ast.walk(g.test)) or "cache is not None" not in src(g.test):
                    ok = False
            rep.add("C09.R6", f"{f.qname}:store-after-success", ok, f"{f.module.rel}:{stores[0].lineno}", "store happens only after the executor returned normally, with a backend and a non-empty key" if ok else "an entry can be stored without a successful execution, or without key/backend")
            # R7
            writes = [n for n in cfg2.nodes if any(isinstance(c.func, ast.Attribute) and c.func.attr == "update_value" for c in cfg2.calls_at(n))]
            rets_hit = [n for n in live_hit if n.kind == "stmt" and isinstance(n.ast, ast.Return)]
            targets = [w for w in writes if w in live_hit] or rets_hit
            ok = bool(targets) and all(all_paths_pass(start, t, restores, hit_val) for t in targets)
            rep.add("C09.R7", f"{f.qname}:restore-before-apply", ok, f"{f.module.rel}:{restores[0].lineno}", "on a hit the routing decision is restored (internal key removed) before outputs are applied/returned" if ok else "on a hit the cached outputs can be applied without restoring the routing decision / removing the internal key")

    # the decision object travels unchanged: what the gate recorded is stored, what was stored is restored
    # (readers dispatch on its type: a list is a multi-target decision, anything else a single name)
    sic = db.func("runners._shared.caching.store_in_cache")
    rrd_ = db.func("runners._shared.caching.restore_routing_decision")

    def _key_stores(f):
        return [n for n in walk_local(f.node) if isinstance(n, ast.Assign) and len(n.targets) == 1 and isinstance(n.targets[0], ast.Subscript) and src(n.targets[0].slice) == "_ROUTING_DECISION_KEY"]

    def _from(f, v, pred) -> bool:
        """v is a Name with a single definition whose value satisfies pred"""
        if not isinstance(v, ast.Name):
            return False
        ds = db.local_defs(f).get(v.id, [])
        return len(ds) == 1 and getattr(ds[0], "value", None) is not None and pred(ds[0].value)

    st = _key_stores(sic)
    ok = len(st) == 1 and _from(sic, st[0].value, lambda e: isinstance(e, ast.Call) and isinstance(e.func, ast.Attribute) and e.func.attr == "get" and src(e.func.value).endswith(".routing_decisions") or isinstance(e, ast.Subscript) and src(e.value).endswith(".routing_decisions"))
    rep.add("C09.R7", f"{sic.qname}:decision-stored-as-recorded", ok, sic.loc(), "the decision object the gate recorded is stored as it is" if ok else f"the stored routing decision is transformed ('{src(st[0].value) if st else '?'}'): the scheduler tells a multi-target decision from a single name by its type, so a restored tuple/str/copy of another type activates no target on a hit")
    rs = [n for n in walk_local(rrd_.node) if isinstance(n, ast.Assign) and len(n.targets) == 1 and isinstance(n.targets[0], ast.Subscript) and src(n.targets[0].value).endswith(".routing_decisions")]
    ok = len(rs) == 1 and _from(rrd_, rs[0].value, lambda e: isinstance(e, ast.Call) and isinstance(e.func, ast.Attribute) and e.func.attr in ("pop", "get") and e.args and src(e.args[0]) == "_ROUTING_DECISION_KEY")
    rep.add("C09.R7", f"{rrd_.qname}:decision-restored-as-stored", ok, rrd_.loc(), "the stored decision object is written back unchanged" if ok else "the restored routing decision is transformed on the way back into the state")

    # ---- R8 ---------------------------------------------------------------------
    im = db.cls("cache.InMemoryCache")
    g2, s2 = im.methods["get"], im.methods["set"]
    t = src(g2.node)
    ok = "if key not in self._data" in t and "return (False, None)" in t.replace("return False, None", "return (False, None)") and "return (True, self._data[key])" in t.replace("return True, self._data[key]", "return (True, self._data[key])")
    rep.add("C09.R8", f"{g2.qname}", ok, g2.loc(), "miss iff the key is absent; a hit returns the stored object" if ok else "InMemoryCache.get no longer returns exactly the stored object / miss tuple")
    pops = [c for c in db.calls_in(s2) if isinstance(c.func, ast.Attribute) and c.func.attr in ("popitem", "pop", "clear")]
    ok = len(pops) == 1 and pops[0].func.attr == "popitem" and any(k.arg == "last" and isinstance(k.value, ast.Constant) and k.value.value is False for k in pops[0].keywords)
    if ok:
        g = enclosing(pops[0], (ast.If,))
        ok = g is not None and "len(self._data) > self._max_size" in src(g.test) and "self._max_size is not None" in src(g.test)
    stores = [n for n in walk_local(s2.node) if isinstance(n, ast.Assign) and src(n.targets[0]) == "self._data[key]" and src(n.value) == "value"]
    rep.add("C09.R8", f"{s2.qname}", ok and len(stores) == 1, s2.loc(), "set stores the value and evicts only the least-recently-used entry when over capacity" if ok and stores else "InMemoryCache.set evicts other than the single LRU entry over capacity, or does not store the value")


def check_hit_restores_sentinel(ctx, rule: str) -> None:
    """On a cache hit the emit outputs of the served entry are re-bound to the module's sentinel object — for
    every node kind (function nodes and gates alike): a serialising backend returns a copy, and the sentinel
    is compared by identity when results are filtered and when versions are advanced."""
    from sa.cfg import test_atoms

    db, rep = ctx.db, ctx.rep
    cc = db.func("runners._shared.caching.check_cache")
    cands = [cc] + [g for g in db.all_funcs() if g.module == cc.module and g is not cc and g.parent is None]
    verdicts = []
    for f in cands:
        cfg = ctx.cfg(f)
        stores = [n for n in cfg.nodes if n.kind == "stmt" and isinstance(n.ast, ast.Assign) and isinstance(n.ast.value, ast.Name) and n.ast.value.id == "_EMIT_SENTINEL" and any(isinstance(t, ast.Subscript) for t in n.ast.targets) and enclosing(n.ast, (ast.For,)) is not None and "outputs" in src(enclosing(n.ast, (ast.For,)).iter)]
        # the re-binding loop (it may run zero times): the loop header is what every hit path has to pass
        stores = [n for n in cfg.nodes if n.kind == "for" and any(contains(n.ast, s_.ast) for s_ in stores)]
        comp = [n for n in cfg.nodes if n.kind == "stmt" and any(isinstance(x, ast.DictComp) and "_EMIT_SENTINEL" in src(x) for x in ast.walk(n.ast))] if not stores else []
        if not stores and not comp:
            continue
        kind_atoms = {src(a) for t in cfg.nodes if t.kind == "test" and t.ast is not None for a in test_atoms(t.ast) if isinstance(a, ast.Call) and dotted(a.func) == "isinstance"}
        rets = [n for n in cfg.nodes if n.kind == "stmt" and isinstance(n.ast, ast.Return)]
        hit_rets = [r for r in rets if not (isinstance(r.ast.value, ast.Tuple) and any(isinstance(e, ast.Constant) and e.value is None for e in r.ast.value.elts))] if f is cc else [cfg.exit_return]
        ok_all = True
        for polarity in (True, False):
            val = {a: polarity for a in kind_atoms}
            ef = specialize(val, cfg)
            for r in hit_rets:
                if reaches(cfg.entry, r, ef) and not all_paths_pass(cfg.entry, r, stores or comp, ef):
                    ok_all = False
        verdicts.append((f, ok_all))
    ok = any(v for _, v in verdicts)
    where = verdicts[0][0] if verdicts else cc
    rep.add(rule, f"{cc.qname}:emit-sentinel-identity", ok, where.loc(), "emit outputs of a served entry are re-bound to the module sentinel for every node kind (a serialising backend returns a copy, and the sentinel is compared by identity everywhere)" if ok else "a cached entry's emit outputs come back from the backend as they were stored (for some node kind): with a serialising backend the copy of the sentinel is no longer identical to it, leaks into the run's values and no longer advances the signal's version")


CA = "src/hypergraph/runners/_shared/caching.py"
CH = "src/hypergraph/cache.py"
SS = "src/hypergraph/runners/sync/superstep.py"
AS = "src/hypergraph/runners/async_/superstep.py"
VARIANTS = [
    Variant("hmac-key-reread-over-fresh-key", CH, replace_once("            existing = f.read()\n        if len(existing) == 32:\n            return existing\n", "            key = f.read()\n        if len(key) == 32:\n            return key\n"), {"C09.R2"}),
    Variant("disk-set-skips-when-signature-row-matches", CH, replace_once("        # Store raw bytes — diskcache keeps bytes in binary mode, no extra pickling\n", "        if self._cache.get(key + self._HMAC_SUFFIX, default=None) == value_hmac:\n            return\n        # Store raw bytes — diskcache keeps bytes in binary mode, no extra pickling\n"), {"C09.R6"}),
    Variant("disk-get-signature-read-unguarded", CH, sub_once(r"        try:\n            stored_hmac = self\._cache\.get\(key \+ self\._HMAC_SUFFIX, default=None\)\n        except Exception:\n.*?            return False, None\n        if stored_hmac is None:", "        stored_hmac = self._cache.get(key + self._HMAC_SUFFIX, default=None)\n        if stored_hmac is None:"), {"C09.R3"}),
    Variant("hmac-over-payload-only", CH, replace_once("    msg = cache_key.encode() + raw_bytes\n", "    msg = raw_bytes\n"), {"C09.R2"}),
    Variant("cached-decision-frozen-to-tuple", CA, replace_once("            to_cache[_ROUTING_DECISION_KEY] = decision", "            to_cache[_ROUTING_DECISION_KEY] = tuple(decision) if isinstance(decision, list) else decision"), {"C09.R7"}),
    Variant("key-without-outputs", CA, replace_once("{node.data_outputs!r}:{node.outputs!r}:", ""), {"C09.R1"}),
    Variant("key-on-renamed-inputs", CA, replace_once("cache_key = compute_cache_key(identity, node.map_inputs_to_params(inputs))", "cache_key = compute_cache_key(identity, inputs)"), {"C09.R1"}),
    Variant("key-without-routing-config", CA, replace_once(":{_routing_config(node)!r}\"", "\""), {"C09.R1"}),
    Variant("routing-config-drops-fallback", CA, replace_once("return (tuple(str(t) for t in node.targets), str(node.fallback), node.multi_target)", "return (tuple(str(t) for t in node.targets), node.multi_target)"), {"C09.R1"}),
    Variant("loads-before-verify", CH, replace_once("        expected_hmac = _compute_hmac_bytes(self._hmac_key, key, raw_bytes)\n", "        expected_hmac = _compute_hmac_bytes(self._hmac_key, key, raw_bytes)\n        preview = pickle.loads(raw_bytes)\n"), {"C09.R2", "C09.R5"}),
    Variant("verify-inverted", CH, replace_once("        if not hmac.compare_digest(stored_hmac, expected_hmac):", "        if hmac.compare_digest(stored_hmac, expected_hmac):"), {"C09.R2"}),
    Variant("digest-without-key", CH, replace_once("        expected_hmac = _compute_hmac_bytes(self._hmac_key, key, raw_bytes)\n", "        expected_hmac = _compute_hmac_bytes(self._hmac_key, \"\", raw_bytes)\n"), {"C09.R2"}),
    Variant("loads-unguarded", CH, replace_once("        try:\n            value = pickle.loads(raw_bytes)  # noqa: S301\n        except Exception:\n            logger.warning(\"Cache deserialization failed for key %s — evicting\", key)\n            self._cache.delete(key)\n            self._cache.delete(key + self._HMAC_SUFFIX)\n            return False, None\n", "        value = pickle.loads(raw_bytes)  # noqa: S301\n"), {"C09.R3"}),
    Variant("digest-no-ascii-guard", CH, replace_once("        if not isinstance(stored_hmac, str) or not stored_hmac.isascii():", "        if not isinstance(stored_hmac, str):"), {"C09.R3"}),
    Variant("legacy-entry-returned", CH, replace_once("            logger.warning(\"Cache entry is not raw bytes for key %s — evicting\", key)\n            self._cache.delete(key)\n            return False, None", "            return True, raw_bytes"), {"C09.R3"}),
    Variant("hit-returns-backend-dict", CA, replace_once("    restored = dict(cached_value)\n", "    restored = cached_value\n"), {"C09.R4"}),
    Variant("store-mutates-live-outputs", CA, replace_once("    to_cache = dict(outputs)\n", "    to_cache = outputs\n"), {"C09.R4"}),
    Variant("lookup-without-opt-in", CA, replace_once("    if not getattr(node, \"cache\", False):\n        return \"\", None\n", ""), {"C09.R6"}),
    Variant("store-in-error-handler", SS, replace_once("                # Wrap only Exception subclasses\n                if isinstance(e, Exception):", "                if cache is not None and cache_key:\n                    store_in_cache(node, {}, new_state, cache, cache_key)\n                # Wrap only Exception subclasses\n                if isinstance(e, Exception):"), {"C09.R6"}),
    Variant("async-hit-without-restore", AS, replace_once("            outputs = cached_outputs\n            restore_routing_decision(node, outputs, new_state)\n            # Emit NodeStartEvent -> CacheHitEvent -> RouteDecision?", "            outputs = cached_outputs\n            # Emit NodeStartEvent -> CacheHitEvent -> RouteDecision?"), {"C09.R7"}),
    Variant("hit-keeps-unpickled-sentinel", CA, replace_once("    for name in node.outputs[len(node.data_outputs) :]:\n        restored[name] = _EMIT_SENTINEL\n", ""), {"C09.R9"}),
    Variant("lru-evicts-newest", CH, replace_once("            self._data.popitem(last=False)", "            self._data.popitem(last=True)"), {"C09.R8"}),
    Variant("twin-verify-positive-form", CH, replace_once("        if not hmac.compare_digest(stored_hmac, expected_hmac):\n            logger.warning(\n                \"Cache HMAC mismatch for key %s — possible tampering, evicting\",\n                key,\n            )\n            self._cache.delete(key)\n            self._cache.delete(key + self._HMAC_SUFFIX)\n            return False, None\n", "        verified = hmac.compare_digest(stored_hmac, expected_hmac)\n        if not verified:\n            self._cache.delete(key)\n            self._cache.delete(key + self._HMAC_SUFFIX)\n            return False, None\n"), set()),
    Variant("store-key-rebuilt-after-execution", CA, chain(replace_once("    cache.set(cache_key, to_cache)", "    from hypergraph.cache import compute_cache_key\n\n    cache.set(compute_cache_key(node.definition_hash, to_cache) or cache_key, to_cache)")), {"C09.R6"}),
]

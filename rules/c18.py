"""C18 Run isolation: no state leaks between runs; caller-owned objects untouched."""

from __future__ import annotations

import ast

from sa.cfg import all_paths_pass, reachable, reaches, specialize, test_atoms
from sa.db import AnalysisError, bind_args, dotted, src, walk_local
from sa.effects import Effects, fmt_effect
from sa.flow import defs_reaching, reaching_defs
from sa.model import contains, enclosing, execute_impl_funcs, superstep_funcs, template_classes
from sa.variants import Variant, replace_once, sub_first, sub_once

from .common import call_names, eval_bool, norm_atom, template_methods, vars_from_call

ID = "C18"
EXPLANATION = (
    "Decides where copies are made and that nothing survives a run: (R1) in the input resolver a value classified as a signature DEFAULT reaches the "
    "node only through the deep-copy helper on every path, for every node kind, while EDGE/PROVIDED/BOUND values are returned by identity (no copy "
    "call reachable); (R2) the caller's mapping passed to run/map is used only as the argument of normalize_inputs, which copies it, and neither it "
    "nor the map-input generators have a write/mutation effect on it; (R3) every run starts from a freshly constructed GraphState whose fields use "
    "default_factory; (R4) runner, template and executor classes assign to self only in __init__, no module-level mutable container under runners/ "
    "is mutated by any function, and the ContextVar limiter is the only cross-call channel; (R5) who-may-copy: deepcopy is called only by the two "
    "documented helpers (signature defaults; explicit map_over clone), copy.copy only on a derivation's receiver, and bind() stores the caller's objects "
    "themselves; (R6) a mapping graph node leaves the inner graph's own bound values out of the inputs of the nested map, so per-item cloning can "
    "never touch them. R6 is decided as a truth table of the executor's comprehension filter over 'key is bound in the inner graph' x 'value is that bound object': exactly the (bound, same object) case may be dropped. R1 also requires that the DEFAULT (copied) class holds signature defaults only and that values bound on a nested graph have a BOUND path of their own; (R7) a DEFAULT-class value is never collected as a broadcast input of a mapping graph node; (R8) effects analysis: the run/map paths and the executors neither write nor mutate attributes of the runner/executor objects (no state survives a run on the runner; the user's cache backend excepted)."
    " R8 also covers the graph: the run/map/execute paths have no write or mutation effect on the graph parameter — followed through call results that alias it ('spec = resolve(graph)' returning graph.inputs) — except the lazy memoisation inside the graph's own properties."
    " R1 also requires that an input is left out of a nested graph node's collected inputs only on the resolver's own classification (get_value_source(...) == DEFAULT)."
    " R5 also requires that bind() starts from the graph's own bindings (not the merged view); R2 that a handler's dict answer is copied before the signal names are written into it."
    " R6 also requires that the mapping map() varies, broadcasts and clones derives from the caller's values only: nothing that reads a graph's bound values flows into generate_map_inputs."
)
NOT_DECIDED = "Equality of results across repeated/concurrent runs as such; behaviour of user objects that refuse deepcopy (reported as GraphConfigError by design)."


def check_inputs_from_resolver(ctx, rule: str) -> None:
    """Every value placed in the dict a node's inputs are collected into comes from the per-node, per-parameter
    resolver call (which classifies the value for *this* node and copies signature defaults): no entry is taken
    from anywhere else (a memo shared between nodes, another node's resolved value)."""
    db, rep = ctx.db, ctx.rep
    ci = db.func("runners._shared.helpers.collect_inputs_for_node")
    rets = [n.value for n in walk_local(ci.node) if isinstance(n, ast.Return) and n.value is not None]
    ret_names = {r.id for r in rets if isinstance(r, ast.Name)}
    stores = [n for n in walk_local(ci.node) if isinstance(n, ast.Assign) and isinstance(n.targets[0], ast.Subscript) and isinstance(n.targets[0].value, ast.Name) and n.targets[0].value.id in ret_names]
    comps = [r for r in rets if isinstance(r, ast.DictComp)] + [d.value for nm in ret_names for d in db.local_defs(ci).get(nm, []) if isinstance(getattr(d, "value", None), ast.DictComp)]

    def from_resolver(v: ast.AST) -> bool:
        return isinstance(v, ast.Call) and "_resolve_input" in call_names(db, v, ci)

    bad = [n for n in stores if not from_resolver(n.value)] + [c for c in comps if not from_resolver(c.value)]
    ok = bool(stores or comps) and not bad
    rep.add(rule, f"{ci.qname}:uses-resolver", ok, f"{ci.module.rel}:{bad[0].lineno if bad else ci.lineno}", "every input of a node is obtained from _resolve_input for that node and parameter" if ok else (f"'{src(bad[0])[:70]}' puts a value into a node's inputs that does not come from the resolver call for this node and parameter: a value resolved for another node (e.g. its signature default, copied once) is shared between consumers" if bad else "collect_inputs_for_node bypasses the copying resolver"))


def run(ctx) -> None:
    db, rep = ctx.db, ctx.rep
    E = Effects(db)
    rep.rule("C18.R1", "signature defaults are deep-copied on every path; other sources pass by identity", floor=4)
    rep.rule("C18.R2", "the caller's input mapping is copied before use and never mutated", floor=5)
    rep.rule("C18.R3", "each run starts from a fresh GraphState with per-instance containers", floor=5)
    rep.rule("C18.R4", "no per-run state on runner/executor objects or module-level containers", floor=8)
    rep.rule("C18.R5", "values are copied only by the two documented helpers; bind stores the very object", floor=3)
    rep.rule("C18.R8", "a run leaves the runner and its executors unchanged: no attribute of theirs is written or mutated on the run/map paths (the user-supplied cache backend excepted)", floor=10)
    rep.rule("C18.R7", "a signature default never becomes a broadcast input of a mapping graph node (every item resolves and copies its own)", floor=1)
    rep.rule("C18.R6", "a mapping graph node does not hand the inner graph's own bound values to the clone path", floor=2)

    # ---- R1 ---------------------------------------------------------------------
    ri = db.func("runners._shared.helpers._resolve_input")
    cfg = ctx.cfg(ri)
    rd = reaching_defs(cfg)
    copies = [n for n in cfg.nodes if any("_safe_deepcopy" in call_names(db, c, ri) for c in cfg.calls_at(n))]
    src_tests = [n for n in cfg.nodes if n.kind == "test" and "ValueSource.DEFAULT" in src(n.ast)]
    if not copies or not src_tests:
        rep.bad("C18.R1", f"{ri.qname}:default-copied", ri.loc(), "the resolver no longer distinguishes DEFAULT values / no deep-copy call found")
    else:
        # evaluate every test on the source variable for each member of the ValueSource enum
        vs = db.cls("runners._shared.helpers.ValueSource")
        members = [k for k in vs.class_values if k.isupper()]
        if "DEFAULT" not in members or len(members) < 3:
            raise AnalysisError("ValueSource enum members not recognised")

        def member_of(e: ast.AST) -> str | None:
            return e.attr if isinstance(e, ast.Attribute) and isinstance(e.value, ast.Name) and e.value.id == "ValueSource" else None

        def valuation(m: str) -> dict[str, bool]:
            val: dict[str, bool] = {}
            for t in src_tests:
                for c in ast.walk(t.ast):
                    if not (isinstance(c, ast.Compare) and len(c.ops) == 1):
                        continue
                    op, rhs = c.ops[0], c.comparators[0]
                    mem = member_of(rhs) or member_of(c.left)
                    if mem is not None and isinstance(op, (ast.Eq, ast.Is, ast.NotEq, ast.IsNot)):
                        r = mem == m
                        val[src(c)] = r if isinstance(op, (ast.Eq, ast.Is)) else not r
                    elif isinstance(rhs, (ast.Tuple, ast.List, ast.Set)) and all(member_of(e) for e in rhs.elts) and isinstance(op, (ast.In, ast.NotIn)):
                        r = m in [member_of(e) for e in rhs.elts]
                        val[src(c)] = r if isinstance(op, ast.In) else not r
            return val

        ok = all_paths_pass(cfg.entry, cfg.exit_return, copies, specialize(valuation("DEFAULT"), cfg))
        # and the copy's result is what is returned
        if ok:
            for n in copies:
                if not (isinstance(n.ast, ast.Return) or isinstance(n.ast, ast.Assign)):
                    ok = False
        rep.add("C18.R1", f"{ri.qname}:default-copied", ok, ri.loc(), "a DEFAULT-classified value always passes through the deep-copy helper (for every node kind)" if ok else "a signature default can reach the node without being deep-copied on some path (e.g. for one node kind): a function mutating it pollutes every later run")
        badm = []
        for m in members:
            if m == "DEFAULT":
                continue
            live = reachable(cfg.entry, specialize(valuation(m), cfg))
            if any(n in live for n in copies) or any(dotted(c.func) in ("copy.deepcopy", "copy.copy", "deepcopy") for n in live for c in cfg.calls_at(n)):
                badm.append(m)
        rep.add("C18.R1", f"{ri.qname}:others-by-identity", not badm, ri.loc(), f"values of source {[m for m in members if m != 'DEFAULT']} are returned as the very object (no copy call reachable)" if not badm else f"a value of source {badm} can be copied before it reaches the node (bound/provided objects must arrive as the very object)")
        # the classified value and the copied value are the same binding
        okv = True
        for n in copies:
            c = [c for c in cfg.calls_at(n) if "_safe_deepcopy" in call_names(db, c, ri)][0]
            a = c.args[0] if c.args else None
            if not isinstance(a, ast.Name):
                okv = False
                continue
            ds = defs_reaching(cfg, rd, n, a.id)
            if not all(v is not None and any(isinstance(x, ast.Call) and "get_value_source" in call_names(db, x, ri) for x in ast.walk(getattr(v, "value", v))) for d, v in ds):
                okv = False
        rep.add("C18.R1", f"{ri.qname}:copies-the-resolved-value", okv, ri.loc(), "the value that is copied is the one get_value_source returned" if okv else "the deep-copied object is not the value returned by get_value_source")
    from .c01 import check_bound_class_from_bound_tables, check_default_class_from_signature

    check_default_class_from_signature(ctx, "C18.R1")
    check_bound_class_from_bound_tables(ctx, "C18.R1")
    check_default_copy_is_deep(ctx, "C18.R1")
    check_merged_table_holds_bindings_only(ctx, "C18.R1")
    check_inputs_from_resolver(ctx, "C18.R1")

    # ---- R5: who may copy a value ------------------------------------------------
    allowed = {"hypergraph.runners._shared.helpers._safe_deepcopy": "signature defaults", "hypergraph.runners._shared.helpers._clone_value": "explicit map_over(clone=...) of broadcast values"}
    n_copy = 0
    for f in db.all_funcs():
        if f.module.name.startswith("hypergraph.viz") or f.module.name.startswith("hypergraph.events.rich"):
            continue
        for c in db.calls_in(f):
            d = dotted(c.func) or ""
            if d in ("copy.deepcopy", "deepcopy", "pickle.loads"):
                if d == "pickle.loads":
                    continue
                n_copy += 1
                ok = f.qname in allowed
                rep.add("C18.R5", f"{f.qname}:{d}", ok, f"{f.module.rel}:{c.lineno}", f"documented copy site ({allowed.get(f.qname)})" if ok else "a value is deep-copied outside the two documented helpers: bound/provided/edge values must reach nodes as the very object")
            if d == "copy.copy":
                arg = src(c.args[0]) if c.args else ""
                ok = arg == "self"
                n_copy += 1
                rep.add("C18.R5", f"{f.qname}:copy.copy({arg})", ok, f"{f.module.rel}:{c.lineno}", "shallow copy of the receiver (derivation helper), never of a value" if ok else "a value is shallow-copied on its way to a node")
    g = db.cls("graph.core.Graph")
    bind = g.methods["bind"]
    stores = [n for n in walk_local(bind.node) if isinstance(n, ast.Assign) and any(isinstance(t, ast.Attribute) and t.attr == "_bound" for t in n.targets)]
    ok = len(stores) == 1 and isinstance(stores[0].value, ast.Dict) and any(k is None and src(v) == "values" for k, v in zip(stores[0].value.keys, stores[0].value.values)) and not any(isinstance(x, ast.Call) for x in ast.walk(stores[0].value))
    # ... on top of the graph's *own* bindings only: the merged view (inputs.bound) also holds what nested graphs bound —
    # adopting it makes a sibling's object this graph's own binding, which then overrides the other sibling's
    if ok:
        others = [src(v) for k, v in zip(stores[0].value.keys, stores[0].value.values) if k is None and src(v) != "values"]
        if others != ["self._bound"]:
            ok = False
    rep.add("C18.R5", f"{bind.qname}:stores-the-object", ok, bind.loc(), "bind() stores the caller's objects themselves on top of the graph's own bindings ({**self._bound, **values})" if ok else "bind() transforms or copies the bound values, or starts from something other than the graph's own bindings (e.g. the merged inputs.bound, which also holds what nested graphs bound: a sibling's object becomes this graph's own binding and is handed to the other nested graph)")

    # ---- R6 ---------------------------------------------------------------------
    check_nested_map_inputs(ctx, "C18.R6")
    check_map_broadcast_values_are_provided(ctx, "C18.R6")

    # ---- R7 ---------------------------------------------------------------------
    check_no_broadcast_defaults(ctx, "C18.R7")
    check_skip_by_resolver_class(ctx, "C18.R1")
    # an object a user function returned is the user's: the run does not write into it (a handler's dict answer is
    # copied before the signal names are added)
    from .c14 import check_handler_dict_translated

    check_handler_dict_translated(ctx, None, "C18.R2")

    # ---- R8 ---------------------------------------------------------------------
    from sa.effects import fmt_effect
    from sa.model import execute_impl_funcs

    E8 = E
    fs8 = template_methods(db, "run") + template_methods(db, "map") + execute_impl_funcs(db)
    for ci in db.classes.values():
        if ".executors." in ci.module.name:
            fs8 += [m for m in ci.methods.values() if m.name != "__init__"]
    for f8 in fs8:
        ws = [e for e in E8.writes(f8, "self", include_unknown=False) if e.path[:1] not in (("_cache",), ("cache",))]
        rep.add("C18.R8", f"{f8.qname}:runner-state", not ws, f8.loc(), "no write to / in-place mutation of the runner or executor object" if not ws else f"the run path changes the runner object: {fmt_effect(ws[0])} — state kept on the runner survives the run and leaks into later runs (e.g. a memo keyed by something that does not cover the whole graph configuration)")

    # ... and leaves the graph unchanged: nothing a run is given (provided values, results) is written into the
    # graph object or the structures it caches (its input spec, its bound tables); the only writes are the lazy
    # memoisation of derived views inside the graph's own properties
    for f8 in template_methods(db, "run") + template_methods(db, "map") + execute_impl_funcs(db):
        gp8 = "graph" if "graph" in f8.param_names else next((a_.arg for a_ in f8.node.args.posonlyargs + f8.node.args.args + f8.node.args.kwonlyargs if a_.annotation is not None and src(a_.annotation).split("|")[0].strip().split(".")[-1] == "Graph"), None)
        if gp8 is None:
            raise AnalysisError(f"{f8.qname}: no graph parameter")
        ws = [e for e in E8.writes(f8, gp8, include_unknown=False) if not (e.kind == "write" and len(e.path) == 1 and "via property hypergraph.graph.core.Graph." in e.detail)]
        rep.add("C18.R8", f"{f8.qname}:graph-state", not ws, f8.loc(), "the run path writes nothing into the graph (lazy property memos excepted)" if not ws else f"the run path changes the graph object: {fmt_effect(ws[0])} — what one run was given survives in the shared graph and reaches later (or concurrent) runs as if it had been bound")

    # ---- R2 ---------------------------------------------------------------------
    ni = db.func("runners._shared.input_normalization.normalize_inputs")
    for m in template_methods(db, "run") + template_methods(db, "map"):
        p = "values"
        uses = [x for x in walk_local(m.node) if isinstance(x, ast.Name) and x.id == p and isinstance(x.ctx, ast.Load)]
        ok = bool(uses)
        for u in uses:
            par = getattr(u, "_parent", None)
            if not (isinstance(par, ast.Call) and "normalize_inputs" in call_names(db, par, m) and par.args and par.args[0] is u):
                ok = False
        # closures must not touch it either
        for ch in m.children.values():
            if any(isinstance(x, ast.Name) and x.id == p for x in ast.walk(ch.node)):
                ok = False
        w = E.writes(m, p, include_unknown=True)
        rep.add("C18.R2", f"{m.qname}:caller-mapping", ok and not w, m.loc(), "the caller's mapping is only handed to normalize_inputs" if ok and not w else (f"the caller's mapping is written: {fmt_effect(w[0])}" if w else "the caller's mapping is used directly (not only through normalize_inputs), so later writes can reach the caller's object"))
    w = E.writes(ni, "values", include_unknown=True)
    copied = any(isinstance(n, ast.Assign) and isinstance(n.value, (ast.IfExp, ast.Call)) and "dict(values)" in src(n.value) for n in walk_local(ni.node))
    rets = [n for n in walk_local(ni.node) if isinstance(n, ast.Return)]
    ret_ok = all(not (isinstance(r.value, ast.Name) and r.value.id == "values") for r in rets)
    rep.add("C18.R2", f"{ni.qname}:copies", copied and not w and ret_ok, ni.loc(), "normalize_inputs works on dict(values) and never returns or mutates the caller's object" if copied and not w and ret_ok else "normalize_inputs returns or mutates the caller's mapping")
    for q in ("runners._shared.helpers.generate_map_inputs", "runners._shared.helpers._generate_zip_inputs", "runners._shared.helpers._generate_product_inputs", "runners._shared.input_normalization.merge_with_duplicate_check"):
        f = db.func(q)
        bad = []
        for p in f.param_names:
            bad += [e for e in E.writes(f, p, include_unknown=False)]
        rep.add("C18.R2", f"{f.qname}:no-mutation", not bad, f.loc(), "builds new dicts; parameters are not mutated" if not bad else f"mutates its input: {fmt_effect(bad[0])}")

    # ---- R3 ---------------------------------------------------------------------
    ini = db.func("runners._shared.helpers.initialize_state")
    gstate = db.cls("runners._shared.types.GraphState")
    news = [n for n in walk_local(ini.node) if isinstance(n, ast.Assign) and isinstance(n.value, ast.Call) and any(c.cls == gstate for c in db.resolve_call(n.value, ini)) and not n.value.args and not n.value.keywords]
    rets = [n for n in walk_local(ini.node) if isinstance(n, ast.Return)]
    ok = len(news) == 1 and all(isinstance(r.value, ast.Name) and r.value.id == news[0].targets[0].id for r in rets)
    rep.add("C18.R3", f"{ini.qname}:fresh-state", ok, ini.loc(), "a new GraphState() is constructed and returned for every run" if ok else "initialize_state does not construct a fresh GraphState for every run")
    for name, ann in gstate.class_attrs.items():
        v = gstate.class_values.get(name)
        ok = isinstance(v, ast.Call) and dotted(v.func) in ("field", "dataclasses.field") and any(k.arg == "default_factory" for k in v.keywords)
        rep.add("C18.R3", f"GraphState.{name}", ok, gstate.loc(), "per-instance container (default_factory)" if ok else "field without default_factory: a mutable default would be shared by every run")
    for impl in execute_impl_funcs(db):
        calls = [c for c in db.calls_in(impl) if "initialize_state" in call_names(db, c, impl)]
        loops = [c for c in calls if enclosing(c, (ast.For, ast.While)) is not None]
        rep.add("C18.R3", f"{impl.qname}:state-per-call", len(calls) == 1 and not loops, impl.loc(), "state is created once per execution, inside the call" if len(calls) == 1 and not loops else "state creation is not once per execution")

    # ---- R4 ---------------------------------------------------------------------
    classes = [c for c in db.classes.values() if c.module.name.startswith("hypergraph.runners") and not c.module.name.endswith("types") and not c.module.name.endswith("protocols")]
    n_cls = 0
    for c in classes:
        n_cls += 1
        bad = []
        for m in c.methods.values():
            if m.name == "__init__":
                continue
            for n in walk_local(m.node):
                tg = []
                if isinstance(n, ast.Assign):
                    tg = n.targets
                elif isinstance(n, (ast.AugAssign, ast.AnnAssign)):
                    tg = [n.target]
                for t in tg:
                    base = t
                    while isinstance(base, (ast.Subscript, ast.Attribute)) and not (isinstance(base, ast.Attribute) and isinstance(base.value, ast.Name) and base.value.id == "self"):
                        base = base.value
                    if isinstance(base, ast.Attribute) and isinstance(base.value, ast.Name) and base.value.id == "self":
                        bad.append((m, n))
                if isinstance(n, ast.Call) and isinstance(n.func, ast.Attribute) and n.func.attr in ("append", "extend", "update", "setdefault", "add", "pop", "clear", "remove") and isinstance(n.func.value, ast.Attribute) and isinstance(n.func.value.value, ast.Name) and n.func.value.value.id == "self":
                    bad.append((m, n))
        rep.add("C18.R4", f"{c.qname}:no-state-after-init", not bad, c.loc(), "assigns to self only in __init__" if not bad else f"{bad[0][0].name} stores per-run state on the shared object at line {bad[0][1].lineno}: concurrent or repeated runs on one runner would see each other's data")
    if n_cls < 8:
        raise AnalysisError(f"only {n_cls} runner/executor classes found")
    # module-level mutable containers
    for mi in db.modules.values():
        if not mi.name.startswith("hypergraph.runners"):
            continue
        for name, b in mi.bindings.items():
            if b.kind != "assign" or b.node is None:
                continue
            v = b.node
            mutable = isinstance(v, (ast.List, ast.Dict, ast.Set, ast.ListComp, ast.DictComp, ast.SetComp)) or (isinstance(v, ast.Call) and dotted(v.func) in ("list", "dict", "set", "defaultdict", "collections.defaultdict", "OrderedDict", "deque", "collections.deque"))
            if not mutable:
                continue
            bad = None
            for f in db.all_funcs():
                if f.module != mi and name not in {k for k, bb in f.module.bindings.items() if bb.kind == "import" and (bb.target or "").endswith("." + name)}:
                    continue
                for n in walk_local(f.node):
                    if isinstance(n, ast.Call) and isinstance(n.func, ast.Attribute) and isinstance(n.func.value, ast.Name) and n.func.value.id == name and n.func.attr in ("append", "extend", "update", "setdefault", "add", "pop", "clear", "remove", "insert"):
                        if name not in f.param_names and name not in db.local_defs(f):
                            bad = (f, n)
                    if isinstance(n, (ast.Assign, ast.AugAssign, ast.Delete)):
                        tg = n.targets if isinstance(n, (ast.Assign, ast.Delete)) else [n.target]
                        for t in tg:
                            if isinstance(t, ast.Subscript) and isinstance(t.value, ast.Name) and t.value.id == name and name not in f.param_names and name not in db.local_defs(f):
                                bad = (f, n)
                    if isinstance(n, ast.Global) and name in n.names:
                        bad = (f, n)
            rep.add("C18.R4", f"{mi.name}.{name}:module-container", bad is None, f"{mi.rel}:{getattr(v, 'lineno', 0)}", "module-level container is never mutated by a function" if bad is None else f"{bad[0].qname} mutates the module-level container at line {bad[1].lineno}: state leaks across runs")
    # global statements in runners
    for f in db.funcs_in("runners"):
        for n in walk_local(f.node):
            if isinstance(n, ast.Global):
                rep.bad("C18.R4", f"{f.qname}:global", f"{f.module.rel}:{n.lineno}", f"'global {', '.join(n.names)}' in runner code: module state shared across runs")
    # ContextVar is the only cross-call channel
    cvs = []
    for mi in db.modules.values():
        if mi.name.startswith("hypergraph.runners"):
            for name, b in mi.bindings.items():
                if b.kind == "assign" and isinstance(b.node, ast.Call) and (dotted(b.node.func) or "").endswith("ContextVar"):
                    cvs.append((mi, name, b.node))
    ok = len(cvs) == 1 and any(k.arg == "default" and isinstance(k.value, ast.Constant) and k.value.value is None for k in cvs[0][2].keywords)
    rep.add("C18.R4", "contextvar-channel", ok, f"{cvs[0][0].rel}:{cvs[0][2].lineno}" if cvs else "src/hypergraph/runners:1", "exactly one ContextVar (default None) carries cross-call state; its set/reset pairing is decided by C15.R4" if ok else f"{len(cvs)} ContextVars under runners/ (expected one, default None)")


HP = "src/hypergraph/runners/_shared/helpers.py"
TS = "src/hypergraph/runners/_shared/template_sync.py"
IN = "src/hypergraph/runners/_shared/input_normalization.py"
TY = "src/hypergraph/runners/_shared/types.py"
SR = "src/hypergraph/runners/sync/runner.py"
def check_map_broadcast_values_are_provided(ctx, rule: str) -> None:
    """What map() varies, broadcasts and (with clone) copies per item is what the caller provided — nothing that reads
    the graph's bound values flows into it: a bound object merged in there becomes a clone-able broadcast value."""
    db, rep = ctx.db, ctx.rep
    n = 0
    for m in template_methods(db, "map"):
        defs = db.local_defs(m)
        for c in db.calls_in(m):
            if "generate_map_inputs" not in call_names(db, c, m) or not c.args:
                continue
            n += 1
            seen: set[str] = set()
            work = [x.id for x in ast.walk(c.args[0]) if isinstance(x, ast.Name)]
            bad = next(((c, x) for x in ast.walk(c.args[0]) if isinstance(x, ast.Attribute) and x.attr in ("bound", "_bound")), None)
            while work and bad is None:
                nm = work.pop()
                if nm in seen:
                    continue
                seen.add(nm)
                for d in defs.get(nm, []):
                    v = getattr(d, "value", None)
                    if v is None:
                        continue
                    for x in ast.walk(v):
                        if isinstance(x, ast.Attribute) and x.attr in ("bound", "_bound"):
                            bad = (d, x)
                        elif isinstance(x, ast.Name):
                            work.append(x.id)
            rep.add(rule, f"{m.qname}:broadcast-values-are-the-provided-ones", bad is None, f"{m.module.rel}:{(bad[0] if bad else c).lineno}", "the mapping handed to the per-item generator derives from the caller's values only" if bad is None else f"'{src(bad[0])[:70]}' merges the graph's bound values into the mapping that map() broadcasts: with clone=True (or a clone list naming it) a bound object is deep-copied per item, so the node receives a copy instead of the very object that was bound — also for an inner graph's own bindings, which the nested map merges back in")
    if n < 2:
        raise AnalysisError("generate_map_inputs call sites in the map templates not found")


def check_merged_table_holds_bindings_only(ctx, rule: str) -> None:
    """The merged bound table of a graph holds values taken from bound tables only (its own, and the ``inputs.bound`` of
    nested graphs): a value that enters it is handed to nodes by identity, never copied — a signature default surfaced
    through it (e.g. via get_default_for, which answers 'bound, else default') would be shared between runs."""
    db, rep = ctx.db, ctx.rep
    f = db.func("graph.input_spec._collect_bound_values")
    defs = db.local_defs(f)
    bound_vars = {nm for nm, ds in defs.items() if any(isinstance(d, (ast.Assign, ast.AnnAssign)) and getattr(d, "value", None) is not None and (src(d.value).endswith(".bound") or src(d.value).endswith("._bound")) for d in ds)}
    rets = {r.value.id for r in walk_local(f.node) if isinstance(r, ast.Return) and isinstance(r.value, ast.Name)}
    stores = [x for x in walk_local(f.node) if isinstance(x, ast.Assign) and isinstance(x.targets[0], ast.Subscript) and isinstance(x.targets[0].value, ast.Name) and x.targets[0].value.id in rets]
    stores += [x for x in walk_local(f.node) if isinstance(x, ast.Call) and isinstance(x.func, ast.Attribute) and x.func.attr in ("update", "setdefault") and isinstance(x.func.value, ast.Name) and x.func.value.id in rets]
    if not stores or not rets:
        raise AnalysisError("_collect_bound_values: merge sites not found")
    bad = None
    for x in stores:
        v = x.value if isinstance(x, ast.Assign) else (x.args[-1] if x.args else None)
        okv = isinstance(v, ast.Subscript) and isinstance(v.value, ast.Name) and v.value.id in bound_vars or (isinstance(v, ast.Call) and isinstance(v.func, ast.Attribute) and v.func.attr == "get" and isinstance(v.func.value, ast.Name) and v.func.value.id in bound_vars) or (isinstance(v, ast.Name) and v.id in bound_vars) or (v is not None and src(v).endswith(".bound"))
        if not okv:
            bad = bad or (x, v)
    rep.add(rule, f"{f.qname}:merged-table-holds-bindings-only", bad is None, f"{f.module.rel}:{(bad[0] if bad else f.node).lineno}", f"{len(stores)} merge site(s): every value comes out of a bound table" if bad is None else f"'{src(bad[1]) if bad[1] is not None else '?'}' puts something other than a bound value into the merged bound table: get_default_for answers 'bound, else signature default', so an inner signature default is classified BOUND, is not deep-copied and reaches the nested run by reference — a function that mutates its default carries the mutation into every later run")


def check_default_always_copied(ctx, rule: str) -> None:
    """In the input resolver, a value classified as a signature DEFAULT passes through the deep-copy helper on every path
    to the return — whatever the node kind and whatever name the parameter currently carries."""
    db, rep = ctx.db, ctx.rep
    ri = db.func("runners._shared.helpers._resolve_input")
    cfg = ctx.cfg(ri)
    copies = [n for n in cfg.nodes if any("_safe_deepcopy" in call_names(db, c, ri) for c in cfg.calls_at(n))]
    val: dict[str, bool] = {}
    for t in [n for n in cfg.nodes if n.kind == "test" and "ValueSource." in src(n.ast)]:
        for c in ast.walk(t.ast):
            if isinstance(c, ast.Compare) and len(c.ops) == 1 and isinstance(c.ops[0], (ast.Eq, ast.Is, ast.NotEq, ast.IsNot)):
                mem = next((e.attr for e in (c.left, c.comparators[0]) if isinstance(e, ast.Attribute) and isinstance(e.value, ast.Name) and e.value.id == "ValueSource"), None)
                if mem is not None:
                    r = mem == "DEFAULT"
                    val[src(c)] = r if isinstance(c.ops[0], (ast.Eq, ast.Is)) else not r
    ok = bool(copies) and bool(val) and all_paths_pass(cfg.entry, cfg.exit_return, copies, specialize(val, cfg))
    rep.add(rule, f"{ri.qname}:default-always-copied", ok, ri.loc(), "a DEFAULT-classified value always passes through the deep-copy helper" if ok else "a signature default can reach the node function without being deep-copied on some path (e.g. a guard that looks the parameter up under its current, renamed name in a table keyed by the function's own parameter names): the default object is shared by a node and all its clones, so running a derived node changes what its receiver and siblings compute")


def check_default_copy_is_deep(ctx, rule: str) -> None:
    """The helper that gives each execution its own copy of a signature default returns copy.deepcopy(value) on every
    path — no type is handed through uncopied (a tuple or namedtuple default can hold a list)."""
    db, rep = ctx.db, ctx.rep
    sd = db.func("runners._shared.helpers._safe_deepcopy")
    rets = [n for n in walk_local(sd.node) if isinstance(n, ast.Return)]
    ok = bool(rets) and all(isinstance(r.value, ast.Call) and dotted(r.value.func) == "copy.deepcopy" and r.value.args and src(r.value.args[0]) == sd.positional_params[0] for r in rets)
    rep.add(rule, f"{sd.qname}:is-deepcopy", ok, sd.loc(), "the helper returns copy.deepcopy(value)" if ok else "the copy helper no longer returns copy.deepcopy of its argument on every path (e.g. a fast path that hands 'immutable' types through — a tuple/namedtuple default holding a list keeps what the previous execution appended; or a shallow copy that shares nested containers)")


def check_nested_map_inputs(ctx, rule: str) -> None:
    """The inputs a mapping GraphNode executor hands to the nested ``map``: every translated input is
    forwarded unchanged, except exactly those whose value *is* the inner graph's own bound object
    (those resolve by identity inside each item run and must not become clone-able broadcast values)."""
    import itertools

    db, rep = ctx.db, ctx.rep
    run_map = set(template_methods(db, "map"))
    for q in ("runners.sync.executors.graph_node.SyncGraphNodeExecutor.__call__", "runners.async_.executors.graph_node.AsyncGraphNodeExecutor.__call__"):
        f = db.func(q)
        translated = set(vars_from_call(db, f, {"map_inputs_to_func_params"}))
        bound_vars = {nm for nm, ds in db.local_defs(f).items() if any(isinstance(x, ast.Assign) and src(x.value).endswith(".inputs.bound") and ("node.graph" in src(x.value) or "node._graph" in src(x.value)) for x in ds)}
        n_sites = 0
        for c, cal in db.callees(f):
            if cal.func not in run_map:
                continue
            n_sites += 1
            a1 = c.args[1] if len(c.args) > 1 else None
            ok, why = False, "the nested map's input mapping is not a filtered copy of the translated inputs"
            if isinstance(a1, ast.Name) and a1.id in translated:
                ok, why = not any(k.arg == "clone" for k in c.keywords), "translated inputs are forwarded unfiltered (allowed only when no clone setting is passed)"
                if not ok:
                    why = "the nested map receives the inner graph's bound values as broadcast inputs together with the clone setting: clone=True deep-copies objects that were bound precisely to be shared"
            elif isinstance(a1, (ast.Name, ast.DictComp)):
                for d in ([a1] if isinstance(a1, ast.DictComp) else db.local_defs(f).get(a1.id, [])):
                    v = d if isinstance(d, ast.DictComp) else getattr(d, "value", None)
                    if not (isinstance(v, ast.DictComp) and len(v.generators) == 1):
                        continue
                    g = v.generators[0]
                    it = g.iter
                    if not (isinstance(it, ast.Call) and isinstance(it.func, ast.Attribute) and it.func.attr == "items" and isinstance(it.func.value, ast.Name) and it.func.value.id in translated):
                        why = f"'{src(it)}' is not the translated (inner-name) input mapping: the filter would compare outer names with the inner graph's bound names"
                        continue
                    if not (isinstance(g.target, ast.Tuple) and len(g.target.elts) == 2 and all(isinstance(e, ast.Name) for e in g.target.elts)):
                        continue
                    kn, vn = g.target.elts[0].id, g.target.elts[1].id
                    if not (src(v.key) == kn and src(v.value) == vn):
                        why = "keys/values are transformed on the way to the nested map"
                        continue
                    if not bound_vars:
                        why = "the inner graph's bound mapping is not consulted"
                        continue
                    good = False
                    mapped_vars = set(vars_from_call(db, f, {"_original_map_params"})) or {"<none>"}
                    for b, mv in itertools.product(bound_vars, mapped_vars):
                        a_in, a_is, a_m = f"{kn} in {b}", f"{vn} is {b}[{kn}]", f"{kn} in {mv}"
                        table = {}
                        for m_, x, y in itertools.product((True, False), repeat=3):
                            r = True
                            for cond in g.ifs:
                                e = eval_bool(cond, {a_in: x, a_is: y, a_m: m_})
                                r = None if (e is None or r is None) else (r and e)
                            table[(m_, x, y)] = r
                        want_ = {k_: (True if k_[0] else not (k_[1] and k_[2])) for k_ in table}
                        if all(table[k_] is want_[k_] for k_ in table):
                            good = True
                        elif None not in table.values():
                            if table[(True, True, True)] is False:
                                why = f"a mapped parameter whose list is bound on the inner graph is dropped from the nested map's inputs (filter '{' and '.join(src(i) for i in g.ifs)}'): inner.bind(x=[1, 2, 3]).as_node().map_over('x') fails with KeyError('x') instead of mapping over the bound list"
                                continue
                            dropped = [k_ for k_, r in table.items() if r is False and want_[k_]]
                            if dropped:
                                why = f"an input is dropped although it is not the inner graph's own bound object (filter '{' and '.join(src(i) for i in g.ifs)}'): a value supplied from outside for an inner-bound name never reaches the items"
                            else:
                                why = "the inner graph's own bound objects are forwarded as broadcast values (subject to clone)"
                    if good:
                        ok, why = True, "every translated input is forwarded unchanged except non-mapped values that are the inner graph's own bound objects"
            rep.add(rule, f"{f.qname}:map-inputs", ok, f"{f.module.rel}:{c.lineno}", why)
        if n_sites == 0:
            raise AnalysisError(f"{q}: nested map call not found")


def check_skip_by_resolver_class(ctx, rule: str) -> None:
    """An input is left out of the collected inputs only on the resolver's own classification (``get_value_source``
    says DEFAULT): a home-made test ('has a signature default and is not in the state') also drops values bound on the
    enclosing graph, which must reach the nested node as the very object that was bound."""
    db, rep = ctx.db, ctx.rep
    from .common import enclosing_facts

    ci = db.func("runners._shared.helpers.collect_inputs_for_node")
    svars = set(vars_from_call(db, ci, {"get_value_source"}, index=0)) | set(vars_from_call(db, ci, {"get_value_source"}))
    skips = [n for n in walk_local(ci.node) if isinstance(n, ast.Continue)]
    comps = [g for n in walk_local(ci.node) if isinstance(n, ast.DictComp) for g in n.generators if g.ifs]
    bad = []
    for sk in skips:
        facts = enclosing_facts(sk)
        by_class = any(pol and isinstance(a, ast.Compare) and "ValueSource.DEFAULT" in src(a) and any(isinstance(x, ast.Name) and x.id in svars for x in ast.walk(a)) or isinstance(a, ast.Compare) and "ValueSource.DEFAULT" in src(a) and any(isinstance(x, ast.Call) and "get_value_source" in call_names(db, x, ci) for x in ast.walk(a)) and pol for a, pol in facts)
        if not by_class:
            bad.append(sk)
    for g in comps:
        if not any("ValueSource.DEFAULT" in src(i) for i in g.ifs):
            bad.append(g.ifs[0])
    n_sites = len(skips) + len(comps)
    rep.add(rule, f"{ci.qname}:skip-decided-by-resolver-classification", not bad, f"{ci.module.rel}:{bad[0].lineno if bad else ci.lineno}", f"an input is left to the nested run only when get_value_source classifies it DEFAULT ({n_sites} skip site(s))" if not bad else "an input is left out of a node's collected inputs by a test that is not the resolver's own classification (get_value_source(...) == DEFAULT): a value bound on the enclosing graph for an input that also has an inner signature default is dropped, and the nested node gets a copy of its default instead of the bound object")


def check_no_broadcast_defaults(ctx, rule: str) -> None:
    """The inputs collected for a node are handed, for a mapping GraphNode, to the nested map as broadcast
    values shared by all items.  A value of class DEFAULT is a fresh deep copy made *once* here; if it is
    collected for a non-mapped parameter of a mapping node, all items share that one copy (item i sees the
    mutations of items 0..i-1), unlike runner.map where every item's run copies its own default.  So under
    'node is a mapping GraphNode, parameter not mapped, source is DEFAULT' the store into the collected
    inputs must be unreachable."""
    db, rep = ctx.db, ctx.rep
    ci = db.func("runners._shared.helpers.collect_inputs_for_node")
    cfg = ctx.cfg(ci)
    stores = [n for n in cfg.nodes if n.kind == "stmt" and isinstance(n.ast, (ast.Assign, ast.Return)) and any(isinstance(c, ast.Call) and "_resolve_input" in call_names(db, c, ci) for c in ast.walk(n.ast))]
    if not stores:
        raise AnalysisError("collect_inputs_for_node: the resolving store was not found")
    val: dict[str, bool] = {}
    ldefs = db.local_defs(ci)
    for t in cfg.nodes:
        if t.kind != "test" or t.ast is None:
            continue
        for a in test_atoms(t.ast):
            e = a
            if isinstance(a, ast.Name) and len(ldefs.get(a.id, [])) == 1 and getattr(ldefs[a.id][0], "value", None) is not None:
                e = ldefs[a.id][0].value
            txt = src(e)
            if "ValueSource.DEFAULT" in txt and isinstance(e, ast.Compare) and isinstance(e.ops[0], (ast.Eq, ast.Is)):
                val[src(a)] = True
            elif isinstance(e, ast.Compare) and isinstance(e.ops[0], (ast.NotIn, ast.In)) and ("map_config" in txt or "_map_over" in txt or any(isinstance(x, ast.Name) and len(ldefs.get(x.id, [])) == 1 and getattr(ldefs[x.id][0], "value", None) is not None and ("map_config" in src(ldefs[x.id][0].value) or "_map_over" in src(ldefs[x.id][0].value)) for x in ast.walk(e.comparators[0]))):
                k, pos = norm_atom(e)
                val[k] = False
                val[src(ast.Compare(e.left, [ast.NotIn()], e.comparators))] = True
            elif ("GraphNode" in txt and "isinstance" in txt) or "map_config" in txt or "_map_over" in txt:
                if isinstance(e, ast.BoolOp):
                    # evaluate the conjunction from its parts: only the node-kind / mapping parts are given
                    for part in e.values:
                        pt = src(part)
                        if ("GraphNode" in pt and "isinstance" in pt) or "map_config" in pt or "_map_over" in pt:
                            val[pt] = True
                            if isinstance(part, ast.Compare) and isinstance(part.ops[0], ast.IsNot):
                                val[src(ast.Compare(part.left, [ast.Is()], part.comparators))] = False
                else:
                    val[src(a)] = True
    live = reachable(cfg.entry, specialize(val, cfg)) if val else set(cfg.nodes)
    # the same for a nested graph node that is *not* mapping: the copy it would be handed becomes a provided value
    # of the nested run and is broadcast by a mapping node further down
    val2 = dict(val)
    for t in cfg.nodes:
        if t.kind != "test" or t.ast is None:
            continue
        for a in test_atoms(t.ast):
            e = a
            if isinstance(a, ast.Name) and len(ldefs.get(a.id, [])) == 1 and getattr(ldefs[a.id][0], "value", None) is not None:
                e = ldefs[a.id][0].value
            for x in [e] + ([v_ for v_ in e.values] if isinstance(e, ast.BoolOp) else []):
                tx = src(x)
                if ("map_config" in tx or "_map_over" in tx) and not (isinstance(x, ast.Compare) and isinstance(x.ops[0], (ast.In, ast.NotIn))) and "isinstance" not in tx:
                    val2[tx] = False
                    if isinstance(x, ast.Compare) and isinstance(x.ops[0], ast.IsNot):
                        val2[src(ast.Compare(x.left, [ast.Is()], x.comparators))] = True
                if isinstance(e, ast.BoolOp) and "isinstance" in tx and "GraphNode" in tx:
                    val2[tx] = True
            if isinstance(e, ast.BoolOp) and src(a) in val2 and ("map_config" in src(e) or "_map_over" in src(e)):
                del val2[src(a)]  # evaluate the conjunction from its parts
    live2 = reachable(cfg.entry, specialize(val2, cfg)) if val2 else set(cfg.nodes)
    comp_ok = True
    for s_ in stores:
        if any(isinstance(x, (ast.DictComp, ast.ListComp, ast.GeneratorExp)) and any(isinstance(c, ast.Call) and "_resolve_input" in call_names(db, c, ci) for c in ast.walk(x)) for x in ast.walk(s_.ast)):
            comp_ok = False  # a comprehension over all inputs collects every parameter in one statement
    ok = bool(val) and comp_ok and not any(s_ in live for s_ in stores if comp_ok)
    ok2 = bool(val2) and comp_ok and not any(s_ in live2 for s_ in stores if comp_ok)
    rep.add(rule, f"{ci.qname}:no-default-through-plain-wrapper", ok2, ci.loc(), "a nested graph node that does not map receives no DEFAULT-class value either (the nested run resolves its own)" if ok2 else "a non-mapping nested graph node is still handed the outer copy of an inner signature default: it becomes a provided value of the nested run and a mapping node further down broadcasts it to all items")
    rep.add(rule, f"{ci.qname}:no-default-as-broadcast", ok, ci.loc(), "for a mapping graph node, DEFAULT-class values of non-mapped parameters are not collected (each item's run resolves its own copy)" if ok else "a signature default resolved (and deep-copied once) here is collected for a mapping graph node as well: it is broadcast to all items, which then share one mutable object — mapped items differ from runner.map / single runs")


VARIANTS = [
    Variant("mapping-node-broadcasts-defaults", "src/hypergraph/runners/_shared/helpers.py", replace_once("            if source == ValueSource.DEFAULT:\n                continue\n        inputs[param] = _resolve_input", "            if source == ValueSource.DEFAULT:\n                pass\n        inputs[param] = _resolve_input"), {"C18.R7"}),
    Variant("default-not-copied-for-graphnode", HP, replace_once("    if source == ValueSource.DEFAULT:\n        return _safe_deepcopy(value, param_name=param)", "    if source == ValueSource.DEFAULT and not hasattr(node, \"_graph\"):\n        return _safe_deepcopy(value, param_name=param)"), {"C18.R1"}),
    Variant("bound-copied-too", HP, replace_once("    if source == ValueSource.DEFAULT:\n        return _safe_deepcopy(value, param_name=param)", "    if source in (ValueSource.DEFAULT, ValueSource.BOUND):\n        return _safe_deepcopy(value, param_name=param)"), {"C18.R1"}),
    Variant("shallow-copy-helper", HP, replace_once("        return copy.deepcopy(value)\n    except (TypeError, copy.Error) as e:\n        # Clear, human-friendly explanation", "        return copy.copy(value)\n    except (TypeError, copy.Error) as e:\n        # Clear, human-friendly explanation"), {"C18.R1"}),
    Variant("normalize-returns-callers-dict", IN, replace_once("    base_values = dict(values) if values is not None else {}", "    base_values = values if values is not None else {}"), {"C18.R2"}),
    Variant("run-writes-into-values", TS, replace_once("        max_iter = max_iterations or self.default_max_iterations\n", "        max_iter = max_iterations or self.default_max_iterations\n        if values is not None:\n            values.setdefault(\"__run__\", True)\n"), {"C18.R2"}),
    Variant("zip-mutates-broadcast", HP, replace_once("    if not mapped_values:\n        yield dict(broadcast_values)\n        return\n\n    lengths", "    if not mapped_values:\n        broadcast_values[\"__i\"] = 0\n        yield dict(broadcast_values)\n        return\n\n    lengths"), {"C18.R2"}),
    Variant("state-field-shared-default", TY, replace_once("    routing_decisions: dict[str, Any] = field(default_factory=dict)\n\n    def update_value", "    routing_decisions: dict[str, Any] = None  # type: ignore[assignment]\n\n    def update_value"), {"C18.R3"}),
    Variant("runner-keeps-last-state", SR, replace_once("        state = initialize_state(graph, values)\n        active_nodes = compute_active_node_set(graph)\n\n        for _ in range(max_iterations):", "        state = initialize_state(graph, values)\n        self._last_state = state\n        active_nodes = compute_active_node_set(graph)\n\n        for _ in range(max_iterations):"), {"C18.R4"}),
    Variant("module-level-run-registry", SR, lambda s: s.replace("DEFAULT_MAX_ITERATIONS = 1000\n", "DEFAULT_MAX_ITERATIONS = 1000\n_RUNS: dict = {}\n", 1).replace("        state = initialize_state(graph, values)\n        active_nodes = compute_active_node_set(graph)\n\n        for _ in range(max_iterations):", "        state = initialize_state(graph, values)\n        _RUNS[run_id] = state\n        active_nodes = compute_active_node_set(graph)\n\n        for _ in range(max_iterations):"), {"C18.R4"}),
    Variant("bind-deepcopies", "src/hypergraph/graph/core.py", lambda s_: s_.replace("        new_graph._bound = {**self._bound, **values}", "        import copy as _copy\n\n        new_graph._bound = {**self._bound, **{k: _copy.deepcopy(v) for k, v in values.items()}}"), {"C18.R5"}),
    Variant("sync-map-broadcasts-bound-values", "src/hypergraph/runners/_shared/template_sync.py", replace_once("        input_variations = list(generate_map_inputs(normalized_values, map_over_list, map_mode, clone))", "        input_variations = list(generate_map_inputs({**graph.inputs.bound, **normalized_values}, map_over_list, map_mode, clone))"), {"C18.R6"}),
    Variant("map-passes-inner-bound-to-clone-path", "src/hypergraph/runners/sync/executors/graph_node.py", replace_once("                node.graph,\n                map_inputs,", "                node.graph,\n                inner_inputs,"), {"C18.R6"}),
    Variant("twin-resolver-inverted-test", HP, replace_once("    if source == ValueSource.DEFAULT:\n        return _safe_deepcopy(value, param_name=param)\n\n    # All other sources: return as-is (no copying)\n    return value", "    if source != ValueSource.DEFAULT:\n        return value\n    return _safe_deepcopy(value, param_name=param)"), set()),
    Variant("provided-values-merged-into-spec", "src/hypergraph/runners/_shared/validation.py", replace_once("    merged = {**inputs_spec.bound, **values}", "    merged = inputs_spec.bound\n    merged.update(values)"), {"C18.R8"}),
    Variant("twin-merged-from-dict-copy", "src/hypergraph/runners/_shared/validation.py", replace_once("    merged = {**inputs_spec.bound, **values}", "    merged = dict(inputs_spec.bound)\n    merged.update(values)"), set()),
    Variant("nested-input-skipped-by-home-made-test", HP, replace_once("            source, _ = get_value_source(param, node, graph, state, provided_values)\n            if source == ValueSource.DEFAULT:\n                continue\n", "            if param not in state.values and param not in provided_values and node.has_signature_default_for(param):\n                continue\n"), {"C18.R1"}),
]

"""C06 Renames are transparent: only wiring names change, never what is computed."""

from __future__ import annotations

import ast

from sa.db import AnalysisError, FuncInfo, ancestors, bind_args, dotted, src, walk_local
from sa.flow import backward_slice, defs_reaching, reaching_defs
from sa.cfg import test_atoms
from sa.model import contains, enclosing, is_user_func_call, node_classes
from sa.qualifiers import INNER, OUTER, NameSpaces
from sa.variants import Variant, replace_once, sub_first, sub_once

from .common import call_names, must_reach_in_iteration, wrapper_param

ID = "C06"
EXPLANATION = (
    "Decides how rename histories are consumed and where names cross the wrapper boundary: (R1) a parallel swap and a sequential chain differ only "
    "in batch ids, so every function that walks a rename history reading old/new to compute a name or mapping must read batch_id (or delegate to "
    "one that does); inside the per-batch loop the look-up map is not written — the batch's updates are applied afterwards; (R2) every "
    "current->original translator of every node class reaches the one batch-aware reverse map, defaults/annotations reach the forward map; (R3) every "
    "invocation of a node's callable under runners/ receives arguments derived from map_inputs_to_params, nested runs receive translated inputs, "
    "map parameters and clone lists in original names, and their results are translated back; (R4) GraphNode attributes validated against its "
    "inputs (map_over, clone lists) are rewritten with the same mapping in with_inputs; (R5) one batch id per rename call, obtained outside the "
    "per-entry loop; (R6) name-space discipline by qualifier inference: no membership test, subscript, .get, equality or name-taking method call "
    "combines a wrapper-space name with inner-graph keys/objects (or vice versa) without a translator; (R7) a reverse rename map (which keeps "
    "abandoned intermediate names) is inverted only when restricted to the node's current names; (R8) the copy helper of every concrete node "
    "class gives the derived node its own history list (renames are appended in place, so a shared list would let a later rename of one node "
    "re-map the names of another). R1 also requires that every entry of a batch records its mapping unconditionally; R6 now also covers the callable-node executors (current input names vs the function's own parameter names)."
    " (R9) the node cache keys each argument under the function's own parameter name (map_inputs_to_params), the only place the wiring enters the key."
    " R3 also requires that ordering signals are written under the node's current output names, that every item of a mapping node passes through the output translator, and that a handler's dict answer is translated through the output renames."
)
NOT_DECIDED = "That a consistently alpha-renamed graph computes equal values (a statement about runs); rename validation errors (unknown/duplicate names)."

QUALIFIER_SITES = [
    # (function qname suffix, wrapper variable, seeds, key-seeds, result vars)
    ("runners._shared.helpers.get_value_source", "node", {"param": OUTER}, {}, set()),
    ("runners._shared.helpers.collect_as_lists", "node", {}, {}, {"result"}),
    ("graph.input_spec._collect_bound_values", "node", {}, {"bound": OUTER, "all_bound": OUTER}, set()),
    ("runners.sync.executors.graph_node.SyncGraphNodeExecutor.__call__", "node", {}, {"inputs": OUTER}, {"result"}),
    ("runners.async_.executors.graph_node.AsyncGraphNodeExecutor.__call__", "node", {}, {"inputs": OUTER}, {"result"}),
    ("runners.async_.executors.graph_node.AsyncGraphNodeExecutor._handle_nested_result", "node", {}, {}, {"result"}),
    # callable nodes: current input names vs the function's own parameter names
    ("runners.async_.executors.interrupt_node.AsyncInterruptNodeExecutor.__call__", "node", {}, {"inputs": OUTER}, set()),
    ("runners.async_.executors.interrupt_node._call_handler", "node", {}, {"input_values": OUTER}, set()),
    ("runners.async_.executors.function_node.AsyncFunctionNodeExecutor._execute", "node", {}, {"inputs": OUTER}, set()),
    ("runners.sync.executors.function_node.SyncFunctionNodeExecutor.__call__", "node", {}, {"inputs": OUTER}, set()),
    ("runners._shared.gate_execution.execute_ifelse", "node", {}, {"inputs": OUTER}, set()),
    ("runners._shared.gate_execution.execute_route", "node", {}, {"inputs": OUTER}, set()),
]
GN_PARAM_SEEDS = {"param": OUTER, "output": OUTER, "params": OUTER, "clone": OUTER}
GN_KEY_SEEDS = {"map_inputs_to_params": {"inputs": OUTER}, "map_outputs_from_original": {"outputs": INNER}}


def _reads_attr(f: FuncInfo, attr: str) -> bool:
    return any(isinstance(n, ast.Attribute) and n.attr == attr for n in walk_local(f.node))


def run(ctx) -> None:
    db, rep = ctx.db, ctx.rep
    rep.rule("C06.R1", "history walkers are batch-aware; look-up map not written inside the per-batch loop", floor=4)
    rep.rule("C06.R2", "every translator reaches the single batch-aware resolver", floor=8)
    rep.rule("C06.R3", "arguments and results cross the node boundary through the translators", floor=8)
    rep.rule("C06.R4", "map_over / clone lists follow input renames", floor=2)
    rep.rule("C06.R5", "one batch id per rename call", floor=1)
    rep.rule("C06.R6", "name-space discipline around GraphNode (qualifier inference)", floor=12)
    rep.rule("C06.R7", "reverse rename maps are inverted only over current names", floor=1)
    rep.rule("C06.R9", "the node cache keys each argument under the function's own parameter name (the only place the wiring enters the key)", floor=1)
    rep.rule("C06.R8", "every derived node owns its rename history (no list shared with the node it was derived from)", floor=4)

    brm = db.func("nodes._rename.build_reverse_rename_map")
    bfm = db.func("nodes._callable._build_forward_rename_map")

    # ---- R1 ---------------------------------------------------------------------
    walkers = []
    for f in db.all_funcs():
        if f.module.name.startswith("hypergraph.viz"):
            continue
        loops = [n for n in walk_local(f.node) if isinstance(n, (ast.For, ast.comprehension))]
        hist_names = {"rename_history", "_rename_history", "history"}
        touches = any(isinstance(x, ast.Attribute) and x.attr in ("_rename_history",) for x in walk_local(f.node)) or any(p in hist_names for p in f.param_names)
        reads_old_new = _reads_attr(f, "old") and _reads_attr(f, "new")
        if touches and reads_old_new and loops:
            walkers.append(f)
    for f in walkers:
        aware = _reads_attr(f, "batch_id")
        delegates = any(cal.func in (brm, bfm) for _, cal in db.callees(f))
        # exemption: the result only feeds exception messages
        msg_only = False
        callers = db.callers_of(f)
        if callers and all(_returns_exception(db, g) for g, _ in callers):
            msg_only = True
        ok = aware or delegates or msg_only
        why = "reads batch ids" if aware else ("delegates to the batch-aware resolver" if delegates else "result only feeds an error message (exempt)")
        rep.add("C06.R1", f"{f.qname}:batch-aware", ok, f.loc(), why if ok else "walks the rename history entry by entry without batch ids: a parallel swap (with_inputs(x='y', y='x')) chains onto itself and resolves to the wrong original name")
    check_batch_isolation(ctx, "C06.R1", (brm, bfm))

    # ---- R2 ---------------------------------------------------------------------
    check_translators_reach_resolver(ctx, "C06.R2")

    # ---- R3 ---------------------------------------------------------------------
    n_sites = 0
    for f in db.funcs_in("runners"):
        cfg = None
        for c in db.calls_in(f):
            if not is_user_func_call(db, c, f):
                continue
            n_sites += 1
            cfg = cfg or ctx.cfg(f)
            rd = reaching_defs(cfg)
            kw = [k.value for k in c.keywords if k.arg is None]
            ok = len(kw) == 1 and not c.args and len(c.keywords) == 1
            why = "node function is not called with exactly **<translated inputs>"
            if ok and isinstance(kw[0], ast.Name):
                n = cfg.node_containing(c)[0]
                ds = defs_reaching(cfg, rd, n, kw[0].id)
                ok = bool(ds) and all(isinstance(v, ast.Call) and call_names(db, v, f) & {"map_inputs_to_params", "map_inputs_to_func_params"} for d, v in ds)
                why = "arguments = map_inputs_to_params(<collected inputs>)" if ok else f"arguments '{kw[0].id}' are not derived from map_inputs_to_params: the function would be called with the external (renamed) names"
            elif ok:
                ok = isinstance(kw[0], ast.Call) and bool(call_names(db, kw[0], f) & {"map_inputs_to_params", "map_inputs_to_func_params"})
            rep.add("C06.R3", f"{f.qname}:func-call", ok, f"{f.module.rel}:{c.lineno}", why)
    if n_sites < 5:
        raise AnalysisError(f"only {n_sites} node-callable invocation sites under runners/")
    mtf = db.func("runners._shared.helpers.map_inputs_to_func_params")
    ok = any(isinstance(n, ast.Return) and isinstance(n.value, ast.Call) and isinstance(n.value.func, ast.Attribute) and n.value.func.attr == "map_inputs_to_params" and src(n.value.func.value) == mtf.positional_params[0] and len(n.value.args) == 1 and src(n.value.args[0]) == mtf.positional_params[1] for n in walk_local(mtf.node))
    rep.add("C06.R3", f"{mtf.qname}:delegates", ok, mtf.loc(), "delegates to node.map_inputs_to_params(inputs)" if ok else "helper no longer delegates to the node's own translator")

    # ---- R4 ---------------------------------------------------------------------
    check_renames_reject_duplicates(ctx, "C06.R5")
    check_map_lists_follow_renames(ctx, "C06.R4")
    from .c10 import check_map_over_order_kept

    check_map_over_order_kept(ctx, "C06.R4")

    # ---- R5 ---------------------------------------------------------------------
    wr = db.func("nodes.base.HyperNode._with_renamed")
    ids = [c for c in db.calls_in(wr) if "get_next_batch_id" in call_names(db, c, wr)]
    ok = len(ids) == 1 and enclosing(ids[0], (ast.For, ast.While)) is None
    entries = [c for c in db.calls_in(wr) if "RenameEntry" in src(c.func)]
    ok = ok and bool(entries) and all(len(c.args) >= 4 and isinstance(c.args[3], ast.Name) for c in entries)
    rep.add("C06.R5", f"{wr.qname}:one-batch", ok, wr.loc(), "batch id obtained once per call, outside the per-entry loop, and stamped on every entry" if ok else "batch id is obtained per entry (or not stamped): renames of one call would be treated as sequential and a swap would chain")

    # ---- R6 ---------------------------------------------------------------------
    check_qualifiers(ctx, "C06.R6")
    check_emit_names_current(ctx, "C06.R3")
    from .c14 import check_handler_dict_translated

    check_handler_dict_translated(ctx, "C06.R3", None)
    # a mapping graph node translates *every* item's result itself: items may take different branches and produce
    # different output names, so a name table taken from one item (the first successful one) misses outputs that
    # first appear later — in each iteration of the per-item loop that is not a failed item, the translator is
    # applied to that item's values
    check_every_item_translated(ctx, "C06.R3")

    # ---- R9: the node cache addresses arguments by the function's own parameter names --------------------------
    # definition_hash ignores renames and the identity carries no input wiring, so two differently wired clones of one
    # cached function differ in the key only through the argument mapping: keyed by current external names, a swap
    # a<->b and the original share an entry (the renamed node is served f(a=5, b=3) for f(a=3, b=5))
    from .c09 import cache_key_attrs

    used9 = cache_key_attrs(ctx)
    if used9 is None:
        raise AnalysisError("compute_cache_key call not recognised")
    cc9 = db.func("runners._shared.caching.check_cache")
    ok9 = "map_inputs_to_params" in used9
    rep.add("C06.R9", f"{cc9.qname}:arguments-under-parameter-names", ok9, cc9.loc(), "the cache key is built from map_inputs_to_params(inputs): each value is filed under the parameter that receives it" if ok9 else "the cache key is built from the collected inputs under their current external names: differently wired clones of one cached function that expose the same names share entries")
    check_executor_returns(ctx, "C06.R3")

    # ---- R8 ---------------------------------------------------------------------
    from .c07 import check_copy_freshness

    check_copy_freshness(ctx, "C06.R8", only_attrs=("_rename_history",))

    # ---- R7 ---------------------------------------------------------------------
    check_inversions_over_current_names(ctx, "C06.R7")



def check_map_lists_follow_renames(ctx, rule: str) -> None:
    """GraphNode.with_inputs rewrites the map_over / clone lists with the same mapping it applies to the
    inputs, every entry looked up in parallel ([m.get(p, p) for p in ...])."""
    db, rep = ctx.db, ctx.rep
    gn = db.cls("nodes.graph_node.GraphNode")
    wi = gn.methods.get("with_inputs")
    mo = gn.methods.get("map_over")
    if wi is None or mo is None:
        raise AnalysisError("GraphNode.with_inputs / map_over vanished")
    validated = set()
    for n in walk_local(mo.node):
        if isinstance(n, ast.Assign):
            for t in n.targets:
                if isinstance(t, ast.Attribute) and t.attr in ("_map_over", "_clone"):
                    validated.add(t.attr)
    for a in sorted(validated):
        rewritten = False
        for n in walk_local(wi.node):
            if isinstance(n, ast.Assign) and any(isinstance(t, ast.Attribute) and t.attr == a for t in n.targets):
                v = n.value
                if isinstance(v, ast.ListComp) and isinstance(v.elt, ast.Call) and isinstance(v.elt.func, ast.Attribute) and v.elt.func.attr == "get" and len(v.elt.args) == 2 and src(v.elt.args[0]) == src(v.elt.args[1]):
                    # the mapping is the one applied to the inputs
                    m = v.elt.func.value
                    calls = [c for c in walk_local(wi.node) if isinstance(c, ast.Call) and isinstance(c.func, ast.Attribute) and c.func.attr == "_with_renamed" and len(c.args) == 2 and src(c.args[1]) == src(m)]
                    rewritten = bool(calls)
        rep.add(rule, f"GraphNode.with_inputs:{a}", rewritten, wi.loc(), f"{a} is rewritten with the mapping applied to the inputs" if rewritten else f"{a} is validated against the inputs in map_over but not rewritten in with_inputs: after a rename it names inputs that no longer exist")



def check_every_item_translated(ctx, rule: str) -> None:
    """In the collector of a mapping node, every successful item's values pass through the node's own output translator
    (which inverts the rename history over the node's *current* output names only)."""
    db, rep = ctx.db, ctx.rep
    coll = db.func("runners._shared.helpers.collect_as_lists")
    ccfg_ = ctx.cfg(coll)
    loops_ = [n for n in ccfg_.nodes if n.kind == "for" and isinstance(n.ast.target, ast.Name) and any(isinstance(x, ast.Attribute) and x.attr == "values" and isinstance(x.value, ast.Name) and x.value.id == n.ast.target.id for x in ast.walk(n.ast))]
    if not loops_:
        raise AnalysisError("collect_as_lists: per-item loop not recognised")
    lp_ = loops_[0]
    item = lp_.ast.target.id
    translators = [n for n in ccfg_.nodes if contains(lp_.ast, n.ast) and any(isinstance(c.func, ast.Attribute) and c.func.attr == "map_outputs_from_original" and c.args and src(c.args[0]).startswith(item + ".") for c in ccfg_.calls_at(n))] if True else []
    failed = {src(a): False for t in ccfg_.nodes if t.kind == "test" and t.ast is not None and contains(lp_.ast, t.ast) for a in test_atoms(t.ast) if "FAILED" in src(a) and isinstance(a, ast.Compare) and isinstance(a.ops[0], (ast.Eq, ast.Is))}
    failed.update({src(a): True for t in ccfg_.nodes if t.kind == "test" and t.ast is not None and contains(lp_.ast, t.ast) for a in test_atoms(t.ast) if "FAILED" in src(a) and isinstance(a, ast.Compare) and isinstance(a.ops[0], (ast.NotEq, ast.IsNot))})
    ok_t = bool(translators) and must_reach_in_iteration(ccfg_, lp_, translators, failed)
    rep.add(rule, f"{coll.qname}:every-item-translated", ok_t, coll.loc(), "every successful item's values pass through the node's output translator" if ok_t else "an item's values can be collected without passing through node.map_outputs_from_original(<that item's values>) (e.g. a name table built once from the first item): an output that first appears in a later item is not renamed — it is dropped (None for every item) or lands under the wrong name after a swap")


def check_inversions_over_current_names(ctx, rule: str) -> None:
    """A reverse rename map (current -> original, with entries for abandoned intermediate names) is inverted only when
    restricted to the node's current names; the forward map for defaults/annotations is built batch by batch instead."""
    db, rep = ctx.db, ctx.rep
    n_inv = 0
    for f in db.all_funcs():
        if f.module.name.startswith("hypergraph.viz"):
            continue
        rev_vars = set()
        for n in walk_local(f.node):
            if isinstance(n, ast.Assign) and isinstance(n.value, ast.Call) and "build_reverse_rename_map" in call_names(db, n.value, f):
                rev_vars |= {t.id for t in n.targets if isinstance(t, ast.Name)}
        for n in walk_local(f.node):
            if not isinstance(n, ast.DictComp):
                continue
            g = n.generators[0]
            it = g.iter
            src_ok = isinstance(it, ast.Call) and isinstance(it.func, ast.Attribute) and it.func.attr == "items" and ((isinstance(it.func.value, ast.Name) and it.func.value.id in rev_vars) or (isinstance(it.func.value, ast.Call) and "build_reverse_rename_map" in call_names(db, it.func.value, f)))
            if not src_ok or not (isinstance(g.target, ast.Tuple) and len(g.target.elts) == 2):
                continue
            k, v = g.target.elts
            if isinstance(n.key, ast.Name) and isinstance(v, ast.Name) and n.key.id == v.id:
                n_inv += 1
                # filter restricting the *current* name (k) to the node's current names
                filt = any(isinstance(c, ast.Compare) and isinstance(c.ops[0], ast.In) and isinstance(c.left, ast.Name) and isinstance(k, ast.Name) and c.left.id == k.id and isinstance(c.comparators[0], ast.Attribute) and c.comparators[0].attr in ("outputs", "inputs") for c in g.ifs)
                rep.add(rule, f"{f.qname}", filt, f"{f.module.rel}:{n.lineno}", "inversion is restricted to the node's current names" if filt else "inverts the reverse rename map including abandoned intermediate names: after r->x, x->z, z->x the stale entry wins and values are published under a name the node no longer has")
    if n_inv == 0:
        rep.ok(rule, "no-inversion-sites", "src/hypergraph/nodes:1", "no function inverts a reverse rename map (positive example checked in the self-test)")


def check_renames_reject_duplicates(ctx, rule: str) -> None:
    """Wherever a tuple of input/output names is rewritten through a rename mapping (``tuple(m.get(v, v) for v in names)``),
    the result is tested for duplicates before it is stored or returned: two parameters under one external name make the
    supplied value reach only one of them (the other silently takes its default)."""
    db, rep = ctx.db, ctx.rep
    n = 0
    for f in db.funcs_in("nodes"):
        for x in walk_local(f.node):
            if not (isinstance(x, ast.Call) and (dotted(x.func) or "") == "tuple" and len(x.args) == 1 and isinstance(x.args[0], ast.GeneratorExp)):
                continue
            g = x.args[0]
            e = g.elt
            if not (isinstance(e, ast.Call) and isinstance(e.func, ast.Attribute) and e.func.attr == "get" and len(e.args) == 2 and isinstance(g.generators[0].target, ast.Name) and all(isinstance(a, ast.Name) and a.id == g.generators[0].target.id for a in e.args)):
                continue
            n += 1
            par = getattr(x, "_parent", None)
            rv = par.targets[0].id if isinstance(par, ast.Assign) and isinstance(par.targets[0], ast.Name) else None
            checked = False
            if rv is not None:
                for y in walk_local(f.node):
                    if isinstance(y, ast.Call) and "_check_rename_duplicates" in call_names(db, y, f) and y.args and src(y.args[0]) == rv:
                        checked = True
                    if isinstance(y, ast.Compare) and f"len(set({rv}))" in src(y) and f"len({rv})" in src(y).replace(f"len(set({rv}))", ""):
                        checked = any(isinstance(z, ast.Raise) for a in ancestors(y) if isinstance(a, ast.If) for z in ast.walk(a)) or checked
            rep.add(rule, f"{f.qname}:renamed-names-unique", checked, f"{f.module.rel}:{x.lineno}", "the renamed tuple is tested for duplicates before use" if checked else f"'{src(x)[:60]}' is used without a duplicate test: a constructor-time rename_inputs={{'a': 'b'}} on f(a, b=5) gives inputs ('b', 'b') — the node and the graph are accepted, a supplied b reaches only one of the two parameters and the other silently takes its default (with_inputs rejects the same rename)")
    if n < 2:
        raise AnalysisError(f"only {n} rename application sites found")


def check_translators_reach_resolver(ctx, rule: str, only_class: str | None = None) -> None:
    """Every name translator of the node classes reaches the single batch-aware resolver."""
    db, rep = ctx.db, ctx.rep
    brm = db.func("nodes._rename.build_reverse_rename_map")
    bfm = db.func("nodes._callable._build_forward_rename_map")
    seen = set()
    for ci in node_classes(db):
        for name, target in (("map_inputs_to_params", brm), ("_original_map_params", brm), ("_original_clone", brm), ("map_outputs_from_original", brm), ("_resolve_original_input_name", brm), ("output_annotation", brm), ("defaults", bfm), ("parameter_annotations", bfm)):
            m = ci.find_method(name)
            if m is None or m.qname in seen:
                continue
            if only_class is not None and m.cls.name != only_class:
                continue
            if name == "output_annotation" and m.cls.name != "GraphNode":
                continue  # callable nodes derive output types positionally from the return annotation
            seen.add(m.qname)
            if m.cls.name == "HyperNode" and name == "map_inputs_to_params":
                # abstract default: identity for nodes without renames is decided by the concrete classes
                pass
            clo = db.closure([m], property_reads=True)
            ok = target in clo
            if not ok and m.cls.name == "HyperNode":
                body = [s for s in m.body if not (isinstance(s, ast.Expr) and isinstance(s.value, ast.Constant))]
                if len(body) == 1 and isinstance(body[0], (ast.Return, ast.Raise)):
                    rep.ok(rule, f"{m.qname}", m.loc(), "base-class default (no rename support at this level)")
                    continue
            rep.add(rule, f"{m.qname}", ok, m.loc(), f"reaches {target.name}" if ok else f"does not reach {target.name}: this translator resolves renamed names on its own")
            # ... and the names it hands out are computed *from* the resolver's table: where the translator calls the
            # resolver itself, every non-trivial result it returns depends on that table (not only its early exit)
            rv = {t.id for x in walk_local(m.node) if isinstance(x, ast.Assign) and isinstance(x.value, ast.Call) and target.name in call_names(db, x.value, m) for t in x.targets if isinstance(t, ast.Name)}
            direct = any(target.name in call_names(db, c_, m) for c_ in db.calls_in(m))
            if ok and (rv or direct):
                defs_m = db.local_defs(m)
                loose = None
                for r in [r for r in walk_local(m.node) if isinstance(r, ast.Return) and r.value is not None]:
                    if isinstance(r.value, (ast.Name, ast.Constant)) and (not isinstance(r.value, ast.Name) or r.value.id in m.param_names):
                        continue  # unchanged argument / constant
                    if isinstance(r.value, ast.Attribute) or (isinstance(r.value, (ast.Dict, ast.List, ast.Tuple, ast.Set)) and not (getattr(r.value, "elts", None) or getattr(r.value, "keys", None))):
                        continue  # a stored attribute as it is / an empty container: nothing is translated on this exit
                    if isinstance(r.value, ast.Call) and (dotted(r.value.func) or "") in ("list", "dict", "tuple") and len(r.value.args) == 1 and not any(isinstance(z, ast.Name) and z.id in defs_m for z in ast.walk(r.value.args[0])):
                        continue  # a plain copy of an attribute / argument (nothing renamed)
                    names = {z.id for z in ast.walk(r.value) if isinstance(z, ast.Name)}
                    for _ in range(3):
                        names |= {z.id for nm in list(names) for d in defs_m.get(nm, []) for z in ast.walk(getattr(d, "value", None) or ast.Constant(0)) if isinstance(z, ast.Name)}
                        # containers filled in place: what is stored into them, and under which key
                        for x in walk_local(m.node):
                            if isinstance(x, (ast.Assign, ast.AugAssign)):
                                for t in (x.targets if isinstance(x, ast.Assign) else [x.target]):
                                    if isinstance(t, ast.Subscript) and isinstance(t.value, ast.Name) and t.value.id in names:
                                        names |= {z.id for z in ast.walk(t.slice) if isinstance(z, ast.Name)} | {z.id for z in ast.walk(x.value) if isinstance(z, ast.Name)}
                            elif isinstance(x, ast.Call) and isinstance(x.func, ast.Attribute) and isinstance(x.func.value, ast.Name) and x.func.value.id in names and x.func.attr in ("update", "append", "add", "extend", "setdefault"):
                                names |= {z.id for a_ in x.args for z in ast.walk(a_) if isinstance(z, ast.Name)}
                    if not (names & rv) and not any(isinstance(z, ast.Call) and target.name in call_names(db, z, m) for nm in names | {""} for d in (defs_m.get(nm, []) if nm else [r]) for z in ast.walk(getattr(d, "value", None) or ast.Constant(0))):
                        loose = r
                if loose is not None:
                    rep.bad(rule, f"{m.qname}:result-from-resolver-table", f"{m.module.rel}:{loose.lineno}", f"'{src(loose)[:70]}' does not depend on the table {target.name} returned: the names are paired some other way (e.g. positionally against a tuple that is not the wrapper's own order) — after a rename the value stays under its old name or lands under a sibling's")
                else:
                    rep.ok(rule, f"{m.qname}:result-from-resolver-table", m.loc(), "every translated result is computed from the resolver's table")



def check_batch_isolation(ctx, rule: str, funcs) -> None:
    """The per-batch loop of a rename-map builder must not write the map it looks up."""
    rep = ctx.rep
    for f in funcs:
        # the inner per-batch loop must not write the map it looks up
        inner = [n for n in walk_local(f.node) if isinstance(n, ast.For) and enclosing(n, (ast.For,)) is not None]
        # the same loop written as a comprehension (the normal form folds 'x = {}; for ..: x[k] = e' into one): it cannot
        # write the map it looks up, only the application after it matters
        inner += [n for n in walk_local(f.node) if isinstance(n, (ast.DictComp, ast.ListComp)) and enclosing(n, (ast.For,)) is not None and isinstance(getattr(n, "_parent", None), (ast.Assign, ast.AnnAssign))]
        ok = bool(inner)
        why = "per-batch loop not found"
        for lp in inner:
            looked = set()
            for x in ast.walk(lp):
                if isinstance(x, ast.Call) and isinstance(x.func, ast.Attribute) and x.func.attr in ("get", "items", "values", "keys") and isinstance(x.func.value, ast.Name):
                    looked.add(x.func.value.id)
                if isinstance(x, ast.Subscript) and isinstance(x.ctx, ast.Load) and isinstance(x.value, ast.Name):
                    looked.add(x.value.id)
            written = set()
            for x in ast.walk(lp):
                if isinstance(x, ast.Subscript) and isinstance(x.ctx, ast.Store) and isinstance(x.value, ast.Name):
                    written.add(x.value.id)
                if isinstance(x, ast.Call) and isinstance(x.func, ast.Attribute) and x.func.attr in ("update", "setdefault", "pop") and isinstance(x.func.value, ast.Name):
                    written.add(x.func.value.id)
            both_ = looked & written
            if both_:
                ok, why = False, f"the per-batch loop writes the map it looks up ({sorted(both_)}): renames of one batch chain onto each other"
            else:
                why = "look-ups use the state before the batch; the batch's updates are applied after the loop"
            outer = enclosing(lp, (ast.For,))
            applied = any(isinstance(x, ast.Call) and isinstance(x.func, ast.Attribute) and x.func.attr == "update" and isinstance(x.func.value, ast.Name) and x.func.value.id in looked and not contains(lp, x) for x in ast.walk(outer))
            if ok and not applied:
                ok, why = False, "the batch's updates are never applied to the look-up map"
        rep.add(rule, f"{f.qname}:batch-isolation", ok, f.loc(), why)
        # entries are grouped by their batch id as a key — the same way in both builders.  Entries recorded at
        # construction time (rename_inputs=...) all carry batch_id None and form ONE parallel batch; grouping by
        # adjacency or treating None as 'a step of its own' replays a constructor swap sequentially
        keyed = any(
            (isinstance(x, ast.Call) and isinstance(x.func, ast.Attribute) and x.func.attr == "setdefault" and x.args and isinstance(x.args[0], ast.Attribute) and x.args[0].attr == "batch_id")
            or (isinstance(x, ast.Subscript) and isinstance(x.slice, ast.Attribute) and x.slice.attr == "batch_id")
            for x in walk_local(f.node)
        )
        special = [x for x in walk_local(f.node) if isinstance(x, ast.Compare) and len(x.ops) == 1 and isinstance(x.ops[0], (ast.Is, ast.IsNot, ast.Eq, ast.NotEq)) and isinstance(x.left, ast.Attribute) and x.left.attr == "batch_id"]
        okk = keyed and not special
        rep.add(rule, f"{f.qname}:batches-keyed-by-id", okk, f"{f.module.rel}:{special[0].lineno if special else f.lineno}", "entries are grouped by batch id (None included) as a dictionary key" if okk else "rename entries are not grouped by their batch id as a key (adjacency grouping / a special case for batch_id None): the entries of a constructor rename_inputs={'a': 'b', 'b': 'a'} are replayed one after another and the swap collapses onto one parameter")
        # every entry of a batch records its update: the store is reached on every path through one iteration
        fcfg = ctx.cfg(f)
        for lp in inner:
            if isinstance(lp, (ast.DictComp, ast.ListComp)):
                # comprehension form: every element is recorded unless a filter drops some
                okr = not any(g_.ifs for g_ in lp.generators)
                rep.add(rule, f"{f.qname}:every-entry-recorded", okr, f"{f.module.rel}:{lp.lineno}", "every rename entry of a batch records its mapping unconditionally" if okr else "a filter in the per-batch comprehension skips entries without recording their mapping: an older mapping for that name survives")
                continue
            ln = [n for n in fcfg.nodes if n.kind == "for" and n.ast is lp]
            stores = [n for n in fcfg.nodes if n.kind == "stmt" and isinstance(n.ast, ast.Assign) and isinstance(n.ast.targets[0], ast.Subscript) and contains(lp, n.ast)]
            okr = bool(ln) and bool(stores) and must_reach_in_iteration(fcfg, ln[0], stores, {})
            rep.add(rule, f"{f.qname}:every-entry-recorded", okr, f"{f.module.rel}:{lp.lineno}", "every rename entry of a batch records its mapping unconditionally" if okr else "an entry of a batch can be skipped without recording its mapping: an older mapping for that name (left by an earlier batch) survives, so after swap + swap-back or a full rotation values are routed to the wrong parameter")



def check_emit_names_current(ctx, rule: str) -> None:
    """The names under which ordering signals are written at run time are the node's *current* output names: every loop
    that stores the emit sentinel iterates (a slice of) ``<node>.outputs`` — the attribute with_outputs rewrites — or a
    property computed from it, never a construction-time attribute that renames leave untouched."""
    db, rep = ctx.db, ctx.rep
    n_w = 0
    node_classes = [ci for ci in db.classes.values() if ci.module.name.startswith("hypergraph.nodes")]
    for f in db.all_funcs():
        for n in walk_local(f.node):
            if not (isinstance(n, ast.Assign) and isinstance(n.value, ast.Name) and n.value.id == "_EMIT_SENTINEL" and any(isinstance(t, ast.Subscript) for t in n.targets)):
                continue
            lp = next((a for a in ancestors(n) if isinstance(a, ast.For)), None)
            if lp is None:
                continue
            n_w += 1
            e = lp.iter
            if isinstance(e, ast.Name):
                ds = [d for d in db.local_defs(f).get(e.id, []) if getattr(d, "value", None) is not None]
                if len(ds) == 1:
                    e = ds[0].value

            def current(x: ast.AST, depth: int = 0) -> bool:
                if any(isinstance(y, ast.Attribute) and y.attr == "outputs" for y in ast.walk(x)):
                    return True
                attrs = [y.attr for y in ast.walk(x) if isinstance(y, ast.Attribute)]
                if depth < 2 and attrs:
                    props = [m for ci in node_classes for nm, m in ci.methods.items() if nm in attrs and m.is_property]
                    if props:
                        return all(any(isinstance(r, ast.Return) and r.value is not None and current(r.value, depth + 1) for r in walk_local(m.node)) for m in props)
                return False

            ok = current(e)
            rep.add(rule, f"{f.qname}:emit-names-from-current-outputs", ok, f"{f.module.rel}:{lp.lineno}", "signals are written under the node's current output names" if ok else f"the emit sentinel is stored under names taken from '{src(lp.iter)[:50]}', which with_outputs does not rewrite: a renamed signal is still produced under its old name (its waiter never runs; in a swap with a data output the value is overwritten)")
    if n_w < 2:
        raise AnalysisError(f"only {n_w} emit writers found")


def check_qualifiers(ctx, rule: str, only: tuple[str, ...] | None = None) -> None:
    """Name-space discipline (C06.R6); ``only`` restricts to sites whose qualified name contains one of the fragments."""
    db, rep = ctx.db, ctx.rep
    gn = db.cls("nodes.graph_node.GraphNode")
    # ---- R6 ---------------------------------------------------------------------
    sites = []
    for q, w, seeds, kseeds, rv in QUALIFIER_SITES:
        f = db.maybe_func(q)
        if f is None:
            raise AnalysisError(f"name-space site vanished: {q}")
        sites.append((f, wrapper_param(f, w), seeds, kseeds, rv))
    for m in gn.methods.values():
        seeds = {p: q for p, q in GN_PARAM_SEEDS.items() if p in m.param_names}
        sites.append((m, "self", seeds, GN_KEY_SEEDS.get(m.name, {}), set()))
    if only is not None:
        sites = [s_ for s_ in sites if any(frag in s_[0].qname for frag in only)]
    for f, w, seeds, kseeds, rv in sites:
        ns = NameSpaces(db, f, w, seeds, rv)
        ns.keyq.update({k: v for k, v in kseeds.items() if k not in ns.keyq or ns.keyq[k] is None})
        # re-run with key seeds in place
        ns2 = _with_key_seeds(db, f, w, seeds, kseeds, rv)
        if ns2.mismatches:
            mm = ns2.mismatches[0]
            rep.bad(rule, f"{f.qname}", f"{f.module.rel}:{mm.lineno}", f"'{mm.what}': {mm.detail} — correct only while no rename exists on this wrapper")
        else:
            rep.ok(rule, f"{f.qname}", f.loc(), "no wrapper-space name meets inner-space keys (or vice versa) without a translator")


def check_executor_returns(ctx, rule: str) -> None:
    db, rep = ctx.db, ctx.rep
    # boundary: what the executors hand back must be in the wrapper's space
    for q in ("runners.sync.executors.graph_node.SyncGraphNodeExecutor.__call__", "runners.async_.executors.graph_node.AsyncGraphNodeExecutor.__call__", "runners.async_.executors.graph_node.AsyncGraphNodeExecutor._handle_nested_result"):
        f = db.func(q)
        ns = _with_key_seeds(db, f, wrapper_param(f), {}, {"inputs": OUTER}, {"result"})
        for r in [n for n in walk_local(f.node) if isinstance(n, ast.Return) and n.value is not None]:
            v = r.value
            if isinstance(v, ast.Call) and isinstance(v.func, ast.Attribute) and v.func.attr == "_handle_nested_result":
                rep.ok(rule, f"{f.qname}:returns@{_ri(f, r)}", f"{f.module.rel}:{r.lineno}", "result handed to the converter")
                continue
            qv = ns.q(v)
            rep.add(rule, f"{f.qname}:returns@{_ri(f, r)}", qv == OUTER, f"{f.module.rel}:{r.lineno}", "returns outputs under the wrapper's current names" if qv == OUTER else f"returns '{src(v)[:50]}' whose keys are not translated back to the wrapper's current output names")



def _with_key_seeds(db, f, w, seeds, kseeds, rv) -> NameSpaces:
    class _NS(NameSpaces):
        def __init__(self):
            self._kseeds = kseeds
            super().__init__(db, f, w, seeds, rv)

        def _propagate(self):
            for k, v in self._kseeds.items():
                self.keyq.setdefault(k, v)
            super()._propagate()

    return _NS()


def _returns_exception(db, g: FuncInfo) -> bool:
    ann = getattr(g.node, "returns", None)
    if ann is not None and ("Error" in src(ann) or "Exception" in src(ann)):
        return True
    return False


def _ri(f: FuncInfo, r: ast.Return) -> int:
    rs = [n for n in walk_local(f.node) if isinstance(n, ast.Return)]
    return rs.index(r)


GN = "src/hypergraph/nodes/graph_node.py"
RN = "src/hypergraph/nodes/_rename.py"
CL = "src/hypergraph/nodes/_callable.py"
BASE = "src/hypergraph/nodes/base.py"
IS = "src/hypergraph/graph/input_spec.py"
HP = "src/hypergraph/runners/_shared/helpers.py"
SG = "src/hypergraph/runners/sync/executors/graph_node.py"
AG = "src/hypergraph/runners/async_/executors/graph_node.py"
SF = "src/hypergraph/runners/sync/executors/function_node.py"
VARIANTS = [
    Variant("constructor-rename-duplicates-unchecked", "src/hypergraph/nodes/_rename.py", sub_once(r"    renamed = tuple\(mapping\.get\(v, v\) for v in values\)\n    if len\(set\(renamed\)\) != len\(renamed\):\n.*?    return renamed, history\n", "    return tuple(mapping.get(v, v) for v in values), history\n"), {"C06.R5"}),
    Variant("resolver-walks-history", GN, replace_once("        # Batch-aware: parallel renames (e.g. a swap) must not chain onto each other\n        reverse_map = build_reverse_rename_map(self._rename_history, \"inputs\")\n        return reverse_map.get(param, param)", "        current = param\n        for entry in reversed(self._rename_history):\n            if entry.kind == \"inputs\" and entry.new == current:\n                current = entry.old\n        return current"), {"C06.R1", "C06.R2"}),
    Variant("reverse-map-updates-in-loop", RN, replace_once("            batch_updates[entry.new] = original\n        # Apply all updates from this batch at once\n        reverse_map.update(batch_updates)", "            reverse_map[entry.new] = original"), {"C06.R1"}),
    Variant("forward-map-inverts-reverse", CL, sub_once(r"    input_entries = \[e for e in rename_history if e\.kind == \"inputs\"\]\n    if not input_entries:\n        return \{\}\n.*?    return rename_map\n", "    return {v: k for k, v in build_reverse_rename_map(rename_history, \"inputs\").items()}\n"), {"C06.R7"}),
    Variant("outputs-inverted-unfiltered", GN, replace_once("forward_map = {v: k for k, v in reverse_map.items() if k in self.outputs}", "forward_map = {v: k for k, v in reverse_map.items()}"), {"C06.R7"}),
    Variant("function-executor-raw-inputs", SF, replace_once("        result = node.func(**func_inputs)", "        result = node.func(**inputs)"), {"C06.R3"}),
    Variant("sync-graph-executor-untranslated-result", SG, replace_once("        return node.map_outputs_from_original(result.values)", "        return dict(result.values)"), {"C06.R3"}),
    Variant("async-graph-executor-outer-map-params", AG, replace_once("            original_params = node._original_map_params()\n", "            original_params = list(node._map_over)\n"), {"C06.R6"}),
    Variant("sync-graph-executor-raw-inputs", SG, replace_once("        inner_inputs = map_inputs_to_func_params(node, inputs)\n", "        inner_inputs = inputs\n"), {"C06.R6"}),
    Variant("with-inputs-forgets-clone", GN, replace_once("        # Update clone list if any cloned params were renamed\n        if isinstance(renamed._clone, list):\n            renamed._clone = [combined.get(p, p) for p in renamed._clone]\n", ""), {"C06.R4"}),
    Variant("batch-id-per-entry", BASE, replace_once("                clone._rename_history.append(RenameEntry(attr, old, new, batch_id))  # type: ignore[arg-type]\n            new_values", "                clone._rename_history.append(RenameEntry(attr, old, new, get_next_batch_id()))  # type: ignore[arg-type]\n            new_values"), {"C06.R5"}),
    Variant("output-annotation-current-names", GN, replace_once("            original_name = reverse_map.get(output_name, output_name)\n", "            original_name = output_name\n"), {"C06.R6"}),
    Variant("bound-leaks-inner-names", IS, replace_once("            for outer_name in node.inputs:\n                key = node._resolve_original_input_name(outer_name)\n                if key in inner_bound and outer_name not in all_bound:\n                    all_bound[outer_name] = inner_bound[key]", "            for key, value in inner_bound.items():\n                if key not in all_bound:\n                    all_bound[key] = value"), {"C06.R6"}),
    Variant("has-default-unresolved", GN, replace_once("        # Check if bound in inner graph\n        if original_param in self._graph.inputs.bound:\n            return True\n        # Check if any inner node has a default", "        # Check if bound in inner graph\n        if param in self._graph.inputs.bound:\n            return True\n        # Check if any inner node has a default"), {"C06.R6"}),
    Variant("value-source-inner-bound-by-outer-name", HP, replace_once("        if original_param in node._graph.inputs.bound:\n            return (ValueSource.BOUND, node._graph.inputs.bound[original_param])", "        if param in node._graph.inputs.bound:\n            return (ValueSource.BOUND, node._graph.inputs.bound[param])"), {"C06.R6"}),
    Variant("graphnode-copy-plain", GN, replace_once("        new = copy.copy(self)\n        new._rename_history = list(self._rename_history)\n", "        new = copy.copy(self)\n"), {"C06.R8"}),
    Variant("twin-resolver-local-alias", GN, replace_once("        reverse_map = build_reverse_rename_map(self._rename_history, \"inputs\")\n        return reverse_map.get(param, param)", "        rmap = build_reverse_rename_map(self._rename_history, \"inputs\")\n        original = rmap.get(param, param)\n        return original"), set()),
    Variant("cache-key-by-external-names", "src/hypergraph/runners/_shared/caching.py", replace_once("cache_key = compute_cache_key(identity, node.map_inputs_to_params(inputs))", "cache_key = compute_cache_key(identity, inputs)"), {"C06.R9"}),
]

from hypergraph import Graph, node, SyncRunner
class Errors(Exception):
    def __len__(self): return 0   # e.g. an exception that is also a (currently empty) collection of messages
E = Errors()
@node(output_name="y")
def boom(x: int) -> int: raise E
g = Graph([boom])
r = SyncRunner()
try:
    r.run(g, {"x": 1})
except BaseException as e:
    print("raise mode surfaced:", type(e).__name__, e is E)
res = r.run(g, {"x": 1}, error_handling="continue")
print("continue:", res.status, type(res.error).__name__, res.error is E)
from hypergraph.events.processor import TypedEventProcessor
class P(TypedEventProcessor):
    def on_run_end(self, ev): print("RunEnd status:", ev.status, ev.error)
try:
    r.run(g, {"x": 1}, event_processors=[P()])
except BaseException as e:
    pass

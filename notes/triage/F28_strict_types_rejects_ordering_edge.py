from hypergraph import Graph, node
@node(output_name="a_out", emit="done")
def first(x: int) -> int: return x
@node(output_name="b_out", wait_for="done")
def second(y: int) -> int: return y
for strict in (False, True):
    try:
        g = Graph([first, second], strict_types=strict)
        print("strict", strict, "accepted", [(u,v,d) for u,v,d in g._nx_graph.edges(data=True)])
    except Exception as e:
        print("strict", strict, "rejected", type(e).__name__, str(e)[:200])

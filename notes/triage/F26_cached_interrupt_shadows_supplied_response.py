import asyncio
from hypergraph import Graph, node, AsyncRunner
from hypergraph.nodes.interrupt import interrupt
from hypergraph.cache import InMemoryCache

@node(output_name="draft")
def make(x: int) -> str:
    return f"draft-{x}"

@interrupt(output_name="decision", cache=True)
def approval(draft: str):
    return None   # always ask the human

@node(output_name="final")
def finish(decision: str) -> str:
    return f"final:{decision}"

g = Graph([make, approval, finish])
async def main():
    r = AsyncRunner(cache=InMemoryCache())
    a = await r.run(g, {"x": 1})
    print("1", a.status, a.pause.response_key if a.pause else None)
    b = await r.run(g, {"x": 1, a.pause.response_key: "yes"})
    print("2", b.status, dict(b.values))
    c = await r.run(g, {"x": 1, a.pause.response_key: "no"})
    print("3", c.status, dict(c.values))
    d = await r.run(g, {"x": 1})
    print("4", d.status, dict(d.values))
asyncio.run(main())

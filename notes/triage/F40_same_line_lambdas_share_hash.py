from hypergraph import Graph, SyncRunner
from hypergraph.nodes.function import FunctionNode
from hypergraph.cache import InMemoryCache
fs = [lambda x: x + 1, lambda x: x * 10]
a = FunctionNode(fs[0], name="a", output_name="y", cache=True)
b = FunctionNode(fs[1], name="b", output_name="y", cache=True)
print(a.definition_hash == b.definition_hash)
r = SyncRunner(cache=InMemoryCache())
print(r.run(Graph([a]), {"x": 3}).values, r.run(Graph([b]), {"x": 3}).values, SyncRunner().run(Graph([b]), {"x": 3}).values)

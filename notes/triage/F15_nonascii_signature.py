import tempfile, shutil
from hypergraph.cache import DiskCache
d=tempfile.mkdtemp()
try:
    c=DiskCache(d)
    c.set("k", {"a":1})
    print(c.get("k"))
    sig=c._cache.get("k:hmac")
    # flip one character of the stored signature to a non-ASCII one
    c._cache.set("k:hmac", "é"+sig[1:])
    try:
        print("after corruption:", c.get("k"))
    except Exception as e:
        print("RAISED", type(e).__name__, e)
finally:
    shutil.rmtree(d)

import tempfile, pickle
from hypergraph.cache import DiskCache
HIT = []
class Evil:
    def __reduce__(self): return (print, ("   !!! code ran during unpickling",))
d = tempfile.mkdtemp()
c = DiskCache(d)
c.set("k", {"y": 1})
print("get ok:", c.get("k"))
# corruption class 'type change': the payload row is replaced by a non-bytes object (diskcache stores it pickled)
c._cache.set("k", Evil())
HIT.clear()
print("after type change:", c.get("k"), "side effects:", HIT)
c.set("k2", {"y": 2}); c._cache.set("k2" + c._HMAC_SUFFIX, Evil()); HIT.clear()
print("after signature type change:", c.get("k2"), "side effects:", HIT)

from hypergraph import Graph, node
from hypergraph.viz.renderer import render_graph
@node(output_name="emb")
def p(x): return x
A = Graph([p], name="A")
@node(output_name="emb")
def q(y): return y
@node(output_name="other")
def use(emb): return emb
D = Graph([q], name="D")
C = Graph([D.as_node(), use], name="C").select("other")
@node(output_name="res")
def r(emb, other): return (emb, other)
outer = Graph([A.as_node(), C.as_node(), r])
flat = outer.to_flat_graph()
res = render_graph(flat, depth=0, separate_outputs=True)
import json
meta = res["meta"]
for key, edges in meta["edgesByState"].items():
    nodes = {n["id"] for n in meta["nodesByState"][key]}
    for e in edges:
        if e["source"] not in nodes or e["target"] not in nodes:
            print("STATE", key, "edge with undeclared endpoint:", e["source"], "->", e["target"])
print("states:", len(meta["edgesByState"]))

from hypergraph import Graph, node, SyncRunner
calls=[]
@node(output_name="y")
def a(x): calls.append("a"); return x+1
@node(output_name="z")
def b(y): calls.append("b"); return y*2
g=Graph([a,b]).bind(y=5)
print("spec:", g.inputs.required, g.inputs.optional, dict(g.inputs.bound))
try:
    r=SyncRunner().run(g,{})
    print("run({}) ->", r.status, r.values, calls)
except Exception as e:
    print("run({}) raised", type(e).__name__, str(e)[:100])
calls.clear()
r=SyncRunner().run(g,{"x":1}); print("run(x=1) ->", r.values, calls)

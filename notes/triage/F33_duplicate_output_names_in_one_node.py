from hypergraph import Graph, node
def two(x): return (1, 2)
try:
    n2 = node(output_name=("a", "a"))(two); print("node built", n2.outputs)
    g = Graph([n2]); print("2 accepted", g.outputs)
    from hypergraph import SyncRunner
    print(SyncRunner().run(g, {"x": 1}).values)
except Exception as e: print("2 rejected", type(e).__name__, str(e)[:120])

from hypergraph import Graph, node, SyncRunner
@node(output_name="a", emit="a_done")
def step_a(x: int) -> int: return x + 1
@node(output_name="b", wait_for="a_done")
def step_b(a: int) -> int: return a * 2
inner = Graph([step_a], name="inner")
print("wrapper outputs:", inner.as_node().outputs)
try:
    g = Graph([inner.as_node(), step_b]); print("built; run:", SyncRunner().run(g, {"x": 1}).values)
except Exception as e: print("rejected:", type(e).__name__, str(e).split("\n")[0])
m = Graph([inner.as_node().map_over("x")])
print("mapped:", SyncRunner().run(m, {"x": [1, 2]}).values)

from hypergraph import Graph, node
@node(output_name="y")
def double(x: int) -> int: return x * 2
inner = Graph([double], name="inner")
for nm in ("a/b", "a.b"):
    try:
        g = Graph([inner.as_node().with_name(nm)]); print("1 accepted", nm, list(g._nodes))
    except Exception as e: print("1 rejected", nm, type(e).__name__)
try:
    inner.as_node(name="a/b"); print("1b ctor accepted")
except Exception as e: print("1b ctor rejected", type(e).__name__, str(e)[:60])
try:

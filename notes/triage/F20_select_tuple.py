from hypergraph import Graph, node, SyncRunner
@node(output_name="y")
def f(x): return x+1
@node(output_name="z")
def g(y): return y*2
gr=Graph([f,g])
r=SyncRunner()
print(r.run(gr,{"x":1},select=("z",)).values)
print(r.run(gr,{"x":1},select=("x",)).values)
try:
    print(r.run(gr,{"x":1},select=["x"]).values)
except Exception as e: print("list:",type(e).__name__)
print(r.run(gr,{"x":1},select={"x"}).values)

import asyncio
from hypergraph import Graph, node, SyncRunner, AsyncRunner
from hypergraph.events import EventProcessor
class Rec(EventProcessor):
    def __init__(self): self.ev=[]
    def on_event(self, e): self.ev.append(type(e).__name__)
    def shutdown(self): self.ev.append('SHUTDOWN')
@node(output_name="y")
def f(x): return x+1
g=Graph([f])
for R in (SyncRunner, AsyncRunner):
    for kw in ({"on_missing":"bogus"},{"error_handling":"bogus"},{"map_mode":"bogus"}):
        r=Rec()
        try:
            res=R().map(g,{"x":[1,2]},map_over="x",event_processors=[r],**kw)
            if asyncio.iscoroutine(res): res=asyncio.run(res)
            out='returned'
        except Exception as e: out=type(e).__name__
        print(R.__name__,kw,out,r.ev)
    for kw in ({"on_missing":"bogus"},{"error_handling":"bogus"}):
        r=Rec()
        try:
            res=R().run(g,{"x":1},event_processors=[r],**kw)
            if asyncio.iscoroutine(res): res=asyncio.run(res)
            out='returned'
        except Exception as e: out=type(e).__name__
        print(R.__name__,'run',kw,out,r.ev)
import asyncio
from hypergraph import Graph, node, SyncRunner, AsyncRunner
from hypergraph.events import EventProcessor
class Rec(EventProcessor):
    def __init__(self): self.ev=[]
    def on_event(self, e): self.ev.append(type(e).__name__)
    def shutdown(self): self.ev.append('SHUTDOWN')
@node(output_name="y")
def f(x): return x+1
g=Graph([f])
for R in (SyncRunner, AsyncRunner):
    for kw in ({"select":"typo"},{"on_internal_override":"bogus"},{"entrypoint":"nope"}):
        for meth in ("map","run"):
            r=Rec()
            try:
                if meth=="map": res=R().map(g,{"x":[1,2]},map_over="x",event_processors=[r],**kw)
                else: res=R().run(g,{"x":1},event_processors=[r],**kw)
                if asyncio.iscoroutine(res): res=asyncio.run(res)
                out='returned'
            except Exception as e: out=type(e).__name__
            print(R.__name__,meth,kw,out,r.ev)

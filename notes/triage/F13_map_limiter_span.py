import asyncio
from hypergraph import Graph, node, AsyncRunner
from hypergraph.events.processor import EventProcessor
class P(EventProcessor):
    def __init__(self): self.ev=[]; self.sd=0
    def on_event(self,e): self.ev.append(type(e).__name__)
    def shutdown(self): self.sd+=1
@node(output_name="y")
def f(x): return x+1
g=Graph([f])
p=P()
async def main():
    try:
        r=await AsyncRunner().map(g,{"x":[1,2]},map_over="x",max_concurrency=-1,event_processors=[p])
        print("result",r)
    except Exception as e:
        print("raised",type(e).__name__,e)
asyncio.run(main())
print(p.ev,p.sd)
p2=P()
async def main2():
    r=await AsyncRunner().map(g,{"x":[1,2]},map_over="x",max_concurrency=0,event_processors=[p2])
    print("k=0 result",r)
asyncio.run(main2())
print(p2.ev,p2.sd)

import asyncio
from hypergraph import Graph, AsyncRunner
from hypergraph.nodes.interrupt import interrupt
@interrupt(output_name=("a", "b"))
def ask(x: int): return {"a": x + 1, "b": x + 2}
async def main():
    r = AsyncRunner()
    print("plain  ", (await r.run(Graph([ask]), {"x": 1})).values)
    for nm, n in (("renamed", ask.with_outputs(a="c", b="d")), ("swapped", ask.with_outputs(a="b", b="a"))):
        try:
            print(nm, (await r.run(Graph([n]), {"x": 1})).values)
        except Exception as e: print(nm, "raised", type(e).__name__, str(e)[:100])
asyncio.run(main())

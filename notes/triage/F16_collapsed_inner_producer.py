from hypergraph import Graph, node
from hypergraph.viz.renderer import render_graph
@node(output_name="v")
def f(a): return a
@node(output_name="w")
def g(v): return v
@node(output_name="out")
def consumer(v): return v
inner2=Graph([f],name="inner2")
mid=Graph([inner2.as_node(), g],name="mid")
outer=Graph([mid.as_node(), consumer])
flat=outer.to_flat_graph()
r=render_graph(flat, depth=0)
ebs=r["meta"]["edgesByState"]
for k in sorted(ebs):
    es=[(e["source"],e["target"],e["data"].get("valueName")) for e in ebs[k] if e["data"].get("edgeType") in ("data",None)]
    print(k, es)
print(outer.to_mermaid(depth=1) if hasattr(outer,'to_mermaid') else '')

from typing import Literal
from hypergraph import Graph, node
import traceback
@node(output_name="m")
def p() -> Literal["x"]: return "x"
@node(output_name="o")
def c(m: Literal["y"]) -> str: return m
try:
    Graph([p, c], strict_types=True); print("accepted")
except Exception as e:
    print(type(e).__name__, str(e)[:150]); traceback.print_exc(limit=-6)
@node(output_name="m2")
def p2() -> Literal["x"]: return "x"
@node(output_name="o2")
def c2(m2: Literal["x", "z"]) -> str: return m2
print("subset:", Graph([p2, c2], strict_types=True).outputs)
@node(output_name="o3")
def c3(m2: Literal["z"]) -> str: return m2
try:
    Graph([p2, c3], strict_types=True); print("accepted?!")
except Exception as e:
    print(type(e).__name__)

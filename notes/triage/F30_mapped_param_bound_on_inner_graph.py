from hypergraph import Graph, node, SyncRunner
@node(output_name="y")
def double(x: int) -> int: return x * 2
g = Graph([Graph([double], name="inner").bind(x=[1, 2, 3]).as_node().map_over("x")])
print(g.inputs)
try:
    print(SyncRunner().run(g, {}).values)
except Exception as e: print(type(e).__name__, repr(e)[:200])

from hypergraph import Graph, node, SyncRunner
@node(output_name="y")
def f(x, acc: list = []):
    acc.append(x); return list(acc)
inner=Graph([f],name="inner")
mid=Graph([inner.as_node().map_over("x")],name="mid")
outer=Graph([mid.as_node()])
r=SyncRunner()
print("mid   :", r.run(mid,{"x":[1,2,3]})["y"])
print("outer :", r.run(outer,{"x":[1,2,3]})["y"])

class C: 
    def __init__(s,n): s.n=n
@node(output_name="a")
def ua(client): return client.n
@node(output_name="b")
def ub(client): return client.n
g1=Graph([ua],name="g1").bind(client=C(1))
g2=Graph([ub],name="g2").bind(client=C(2))
o=Graph([g1.as_node(),g2.as_node()])
print(o.inputs)
print(r.run(o,{}).values)

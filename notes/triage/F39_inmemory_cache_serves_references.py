from hypergraph import Graph, node, SyncRunner
from hypergraph.cache import InMemoryCache
@node(output_name="items", cache=True)
def make(n: int) -> list: return [n]
@node(output_name="total")
def consume(items: list) -> int:
    items.append(100); return sum(items)
g = Graph([make, consume])
r = SyncRunner(cache=InMemoryCache())
print([r.run(g, {"n": 3}).values["total"] for _ in range(3)], "uncached:", [SyncRunner().run(g, {"n": 3}).values["total"] for _ in range(3)])

import asyncio
from hypergraph import Graph, AsyncRunner
from hypergraph.nodes.interrupt import interrupt
SHARED = {"a": 1, "b": 2}
@interrupt(output_name=("a", "b"), emit="done")
def ask(x: int): return SHARED
async def main():
    r = AsyncRunner()
    for i in (1, 2):
        try:
            res = await r.run(Graph([ask]), {"x": 1}); print(i, res.status, res.values, "handler dict now:", {k: (v if k != 'done' else '<sentinel>') for k, v in SHARED.items()})
        except Exception as e: print(i, "raised", type(e).__name__, str(e)[:110])
asyncio.run(main())

import asyncio
from hypergraph import Graph, node, SyncRunner, AsyncRunner
class E2(Exception): pass
@node(output_name="y")
def f(x: int) -> int:
    try:
        raise KeyError("orig")
    except KeyError as orig:
        raise E2("wrapped") from orig
g = Graph([f])
for name, call in (("sync", lambda: SyncRunner().run(g, {"x": 1})), ("async", lambda: asyncio.run(AsyncRunner().run(g, {"x": 1})))):
    try:
        call()
    except E2 as e:
        print(name, "cause:", repr(e.__cause__))

from hypergraph import Graph, node, SyncRunner, ifelse

@node(output_name="flag")
def start(x: int) -> bool: return x > 0

@ifelse(when_true="a", when_false="b")
def gate(flag: bool) -> bool: return flag

@node(output_name="result")
def a(x: int) -> int: return x * 2

@node(output_name="result")
def b(x: int) -> str: return "neg"

@node(output_name="final")
def consumer(result: int) -> int: return result

@node(output_name="other")
def side(x: int) -> int: return x

for strict in (False, True):
    try:
        g = Graph([start, gate, a, b, consumer, side], strict_types=strict)
        print("strict", strict, "accepted; edges:", sorted(g._nx_graph.edges()))
    except Exception as e:
        print("strict", strict, "rejected", type(e).__name__, str(e)[:80])
g = Graph([start, gate, a, b, consumer, side])
r = SyncRunner()
print("x=-1 full:", r.run(g, {"x": -1}).values)
gs = g.select("final")
print("select final active inputs:", gs.inputs)
res = r.run(gs, {"x": -1})
print("x=-1 select final:", res.status, res.values)
ge = g.with_entrypoint("b")
print("entry b inputs:", ge.inputs)
res = r.run(ge, {"x": -1})
print("entry b:", res.status, res.values)

import asyncio
from hypergraph import Graph, node, AsyncRunner
from hypergraph.nodes.interrupt import interrupt
@node(output_name="draft")
def make(x: int) -> str: return f"d{x}"
@interrupt(output_name="r1")
def i1(draft: str): return None
@interrupt(output_name="r2")
def i2(r1): return None
@node(output_name="result")
def fin(r2): return f"fin:{r2}"
g = Graph([make, i1, i2, fin])
async def main():
    r = AsyncRunner()
    for v in ("ok", float("nan")):
        res = await r.run(g, {"x": 1, "r1": v, "r2": "b"})
        print(repr(v), res.status, res.pause.node_name if res.pause else None, dict(res.values))
asyncio.run(main())

from hypergraph import Graph, node, ifelse, SyncRunner
from hypergraph.graph.validation import GraphConfigError

@ifelse(when_true="t1", when_false="t2")
def gate(flag: bool) -> bool:
    return flag

@node(output_name="a")
def t1() -> int:
    return 1

@node(output_name=("a", "u2"))
def t2() -> tuple[int, int]:
    return 2, 3

@node(output_name="r")
def shared(a: int) -> int:
    return a * 10

@node(output_name="r")
def other(u2: int) -> int:
    return u2 * 100

for order in ([gate, t1, t2, shared, other], [gate, t2, t1, shared, other]):
    try:
        g = Graph(order)
        print([n.name for n in order], "ACCEPTED")
        for flag in (True, False):
            r = SyncRunner().run(g, {"flag": flag})
            print("  flag", flag, r.values, r.status)
    except GraphConfigError as e:
        print([n.name for n in order], "REJECTED", str(e)[:100])

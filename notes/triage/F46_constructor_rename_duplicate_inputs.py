from hypergraph import Graph, SyncRunner
from hypergraph.nodes.function import FunctionNode
def f(a, b=5): return (a, b)
try:
    n = FunctionNode(f, output_name="r", rename_inputs={"a": "b"})
    print("node inputs", n.inputs)
    g = Graph([n]); print("graph accepted; inputs", g.inputs)
    print(SyncRunner().run(g, {"b": 1}).values)
except Exception as e:
    print("ERR", type(e).__name__, str(e)[:200])
try:
    n2 = FunctionNode(f, output_name="r").with_inputs(a="b")
    print("with_inputs accepted", n2.inputs)
except Exception as e:
    print("with_inputs ERR", type(e).__name__, str(e)[:200])

import sqlite3, tempfile, os
from hypergraph.cache import DiskCache
d = tempfile.mkdtemp()
c = DiskCache(d)
c.set("k", {"y": 1})
print("before:", c.get("k"))
c._cache.close()
db = os.path.join(d, "cache.db")
con = sqlite3.connect(db)
row = con.execute("select rowid, key, value from Cache where key = 'k:hmac'").fetchone()
val = row[2]
bad = b"\xff" + val.encode()[1:]
con.execute("update Cache set value = CAST(? AS TEXT) where rowid = ?", (bad, row[0]))
con.commit(); con.close()
c2 = DiskCache(d)
try:
    print("after :", c2.get("k"))
except Exception as e:
    print("RAISED", type(e).__name__, e)

import tempfile, os
from hypergraph.cache import DiskCache, _HMAC_KEY_FILENAME
d = tempfile.mkdtemp()
open(os.path.join(d, _HMAC_KEY_FILENAME), "wb").close()   # torn write: 0-byte key file
c = DiskCache(d)
print("key length used:", len(c._hmac_key), "| file length:", os.path.getsize(os.path.join(d, _HMAC_KEY_FILENAME)))
assert len(c._hmac_key) == 32, "entries are signed with a truncated key"

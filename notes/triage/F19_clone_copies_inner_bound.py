from hypergraph import Graph, node, SyncRunner
class Client:
    pass
client=Client()
seen=[]
@node(output_name="y")
def f(x, client):
    seen.append(client); return x
inner=Graph([f],name="inner").bind(client=client)
for clone in (False, True, ["client"]):
    seen.clear()
    try:
        gn=inner.as_node().map_over("x", clone=clone)
    except Exception as e:
        print("clone=",clone,"construction:",type(e).__name__,str(e)[:80]); continue
    outer=Graph([gn])
    r=SyncRunner().run(outer,{"x":[1,2]})
    print("clone=",clone, r.status, [s is client for s in seen])

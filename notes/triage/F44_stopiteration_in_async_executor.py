import asyncio
from hypergraph import Graph, node, SyncRunner, AsyncRunner

@node(output_name="y")
def take(x: int) -> int:
    return next(iter([]))  # raises StopIteration

g = Graph([take])
for eh in ("raise", "continue"):
    try:
        r = SyncRunner().run(g, {"x": 1}, error_handling=eh)
        print("sync", eh, type(r.error).__name__, r.status)
    except BaseException as e:
        print("sync", eh, "raised", type(e).__name__, repr(e))
    try:
        r = asyncio.run(AsyncRunner().run(g, {"x": 1}, error_handling=eh))
        print("async", eh, type(r.error).__name__, repr(r.error), r.status)
    except BaseException as e:
        print("async", eh, "raised", type(e).__name__, repr(e), "cause:", repr(e.__cause__))

# gates: the routing function is sync and is called from the executor coroutine through a sync helper
from hypergraph import route, ifelse, END

@route(targets=["take", END])
def choose(x: int) -> str:
    return next(iter([]))

@ifelse(when_true="take", when_false=END)
def check(x: int) -> bool:
    return next(iter([]))

for gate in (choose, check):
    gg = Graph([gate, take])
    try:
        SyncRunner().run(gg, {"x": 1})
    except BaseException as e:
        print("sync gate", gate.name, "raised", type(e).__name__)
    try:
        asyncio.run(AsyncRunner().run(gg, {"x": 1}))
    except BaseException as e:
        print("async gate", gate.name, "raised", type(e).__name__, repr(e))

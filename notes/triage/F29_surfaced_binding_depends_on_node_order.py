from hypergraph import Graph, node, SyncRunner
@node(output_name="o1")
def f1(cfg): return cfg
@node(output_name="o2")
def f2(cfg): return cfg
@node(output_name="o3")
def plain(cfg): return cfg
g1 = Graph([f1], name="g1").bind(cfg="A").as_node()
g2 = Graph([f2], name="g2").bind(cfg="B").as_node()
r = SyncRunner()
a = Graph([g1, g2, plain]); b = Graph([g2, g1, plain])
print(a.inputs, r.run(a, {}).values)
print(b.inputs, r.run(b, {}).values)

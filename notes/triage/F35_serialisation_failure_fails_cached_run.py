from hypergraph import Graph, node, SyncRunner
from hypergraph.cache import InMemoryCache, DiskCache
class Weird:
    def __reduce__(self): raise ValueError("cannot pickle")
@node(output_name="y", cache=True)
def f(w) -> int: return 1
g = Graph([f])
print("uncached:", SyncRunner().run(g, {"w": Weird()}).values)
try:
    print("cached:", SyncRunner(cache=InMemoryCache()).run(g, {"w": Weird()}).values)
except Exception as e: print("cached: raised", type(e).__name__, e)
@node(output_name="y", cache=True)
def h(x: int): return Weird()
import tempfile
try:
    print("disk out:", SyncRunner(cache=DiskCache(tempfile.mkdtemp())).run(Graph([h]), {"x": 1}).status)
except Exception as e: print("disk out: raised", type(e).__name__, e)

from hypergraph import Graph, node, SyncRunner
from hypergraph.cache import InMemoryCache
def make(k):
    @node(output_name="y", cache=True)
    def scale(x):
        return x * k
    return scale
a, b = make(2), make(3)
print(a.definition_hash == b.definition_hash)
r = SyncRunner(cache=InMemoryCache())
print(r.run(Graph([a]), {"x": 5}).values, r.run(Graph([b]), {"x": 5}).values, SyncRunner().run(Graph([b]), {"x": 5}).values)

import tempfile, shutil
from hypergraph import Graph, node, SyncRunner
from hypergraph.cache import DiskCache, InMemoryCache
calls=[]
@node(output_name="y", emit="done", cache=True)
def f(x):
    calls.append(x); return x+1
@node(output_name="z", wait_for="done")
def g(y): return y*2
graph=Graph([f,g])
print("uncached", SyncRunner().run(graph,{"x":1}).values)
d=tempfile.mkdtemp()
try:
    r1=SyncRunner(cache=DiskCache(d)).run(graph,{"x":1}); print("disk run1", r1.values)
    r2=SyncRunner(cache=DiskCache(d)).run(graph,{"x":1}); print("disk run2 (hit)", r2.values, "calls", calls)
finally:
    shutil.rmtree(d)
m=InMemoryCache()
SyncRunner(cache=m).run(graph,{"x":1}); print("mem hit", SyncRunner(cache=m).run(graph,{"x":1}).values)

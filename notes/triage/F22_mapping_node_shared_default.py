from hypergraph import Graph, node, SyncRunner
@node(output_name="out")
def collect(x, acc: list = []):
    acc.append(x)
    return list(acc)
inner = Graph([collect], name="inner")
r = SyncRunner()
print("runner.map      :", [res["out"] for res in r.map(inner, {"x": [1, 2, 3]}, map_over="x")])
outer = Graph([inner.as_node().map_over("x")])
print("mapping node    :", r.run(outer, {"x": [1, 2, 3]})["out"])
print("mapping node #2 :", r.run(outer, {"x": [1, 2, 3]})["out"])
outer2 = Graph([inner.as_node().map_over("x", clone=True)])
print("clone=True      :", r.run(outer2, {"x": [1, 2, 3]})["out"])

from hypergraph import Graph, node, SyncRunner
@node(output_name="r")
def f(a): return a+1
@node(output_name="out")
def g(x): return x*10
inner=Graph([f],name="inner")
gn=inner.as_node().with_outputs(r="x").with_outputs(x="z").with_outputs(z="x")
print(gn.outputs, gn.map_outputs_from_original({"r":1}))
outer=Graph([gn,g])
print(SyncRunner().run(outer,{"a":1}))
# reference: single rename
gn2=inner.as_node().with_outputs(r="x")
print(SyncRunner().run(Graph([gn2,g]),{"a":1}))

from hypergraph import Graph, node
@node(output_name="y")
def double(x: int) -> int: return x * 2
inner = Graph([double], name="inner")
for bad in ("not-valid", "class"):
    try:
        Graph([inner.as_node().with_outputs(y=bad)]); print("accepted", bad)
    except Exception as e: print("rejected", bad, type(e).__name__)
print(Graph([inner.as_node().with_outputs(y="ok_name")]).outputs, Graph([Graph([double], name="my-inner").as_node()]).outputs)

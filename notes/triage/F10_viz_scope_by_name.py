from hypergraph import Graph, node
from hypergraph.viz.renderer import render_graph
@node(output_name="v")
def src_(a): return a
@node(output_name="z2")
def first(z): return z
@node(output_name="k2")
def c1(u, k): return u
inner=Graph([first, c1], name="inner")
w=inner.as_node().with_inputs(u="v")   # outer value v feeds inner parameter u (consumer c1)
outer=Graph([src_, w])
flat=outer.to_flat_graph()
r=render_graph(flat, depth=1)
ebs=r["meta"]["edgesByState"]
for k in sorted(ebs):
    print(k, [(e["source"],e["target"],e["data"].get("valueName")) for e in ebs[k] if e["data"].get("edgeType")=="data"])
print("--- outputs rename")
@node(output_name="y")
def prod(a): return a
@node(output_name="out")
def cons(w): return w
inner2=Graph([prod], name="inner2")
outer2=Graph([inner2.as_node().with_outputs(y="w"), cons])
flat2=outer2.to_flat_graph()
r2=render_graph(flat2, depth=1)
for k in sorted(r2["meta"]["edgesByState"]):
    print(k, [(e["source"],e["target"],e["data"].get("valueName")) for e in r2["meta"]["edgesByState"][k] if e["data"].get("edgeType")=="data"])
    print("   nodes:", sorted(n["id"] for n in r2["meta"]["nodesByState"][k] if not n.get("hidden")))
